"""Orchestration library of /verif/bin/check.

Pipeline per check:  build harness from /repo's working tree  ->  R1: TLC model
checks of the property's modules  ->  R2: TLC-generated behaviours (states,
walks)  ->  real code run by the harness, events recorded  ->  R3: TLC validates
the recorded events against the trace specification  ->  BAD events are
reproduced, matched with known-findings.txt, reported.

Exit codes: 0 property held on everything explored; 1 violation (after
reproduction); 2 infrastructure problem (never a verdict).
"""
import atexit
import concurrent.futures as cf
import json
import os
import re
import shutil
import subprocess
import sys
import tempfile
import time

VERIF = os.path.dirname(os.path.dirname(os.path.abspath(__file__)))
SPEC = os.path.join(VERIF, "spec")
HARNESS = os.path.join(VERIF, "harness")
REPO = "/repo"
# development aid only (never set by a registered command): run the machinery against a scratch worktree of /repo, so
# that several seeded changes can be tried at once while /repo stays untouched
if os.environ.get("VERIF_REPO"):
    REPO = os.environ["VERIF_REPO"]
NCPU = os.cpu_count() or 4

GOENV = dict(os.environ, GOFLAGS="-mod=mod", GOPROXY="off", GOSUMDB="off", GOTOOLCHAIN="local",
             CGO_ENABLED="0")

_work = None


def workdir():
    global _work
    if _work is None:
        base = "/var/tmp" if os.path.isdir("/var/tmp") else tempfile.gettempdir()
        _work = tempfile.mkdtemp(prefix="verif-", dir=base)
        if not os.environ.get("VERIF_KEEP"):
            atexit.register(shutil.rmtree, _work, True)
        else:
            print("workdir kept:", _work, file=sys.stderr)
    return _work


class Infra(Exception):
    """Infrastructure failure: exit 2, never a verdict."""


def log(*a):
    print(*a, file=sys.stderr, flush=True)


# ---------------------------------------------------------------- harness build
def build_harness(race=False, cover=False, name="vh"):
    out = os.path.join(workdir(), name)
    if os.path.exists(out):
        return out
    hdir = HARNESS
    if REPO != "/repo":
        hdir = os.path.join(workdir(), "harness_src")
        if not os.path.isdir(hdir):
            shutil.copytree(HARNESS, hdir)
            gm = open(os.path.join(hdir, "go.mod")).read().replace("=> /repo", "=> " + REPO)
            open(os.path.join(hdir, "go.mod"), "w").write(gm)
    shutil.copy(os.path.join(REPO, "go.sum"), os.path.join(hdir, "go.sum"))
    cmd = ["go", "build", "-tags", "verif", "-o", out]
    env = dict(GOENV)
    if race:
        cmd.insert(2, "-race")
        env["CGO_ENABLED"] = "1"
    if cover:
        cmd[2:2] = ["-cover", "-coverpkg=github.com/willabides/rjson/..."]
    cmd.append(".")
    t0 = time.time()
    p = subprocess.run(cmd, cwd=hdir, env=env, capture_output=True, text=True)
    if p.returncode != 0:
        raise Infra("harness build failed (does /repo compile?):\n" + p.stdout + p.stderr)
    log("built harness in %.1fs" % (time.time() - t0))
    return out


# ------------------------------------------------------------------------- TLC
_spec_copy = None
_spec_lock = __import__("threading").Lock()


def spec_dir():
    """A scratch copy of /verif/spec (TLC litters its working directory)."""
    global _spec_copy
    with _spec_lock:
        if _spec_copy is None:
            d = os.path.join(workdir(), "spec")
            shutil.copytree(SPEC, d)
            _spec_copy = d
    return _spec_copy


_md = [0]


def tlc(module, cfg, workers=1, env=None, timeout=3600, xmx="3g", extra=None, simulate=None):
    """Run TLC; returns (stdout, returncode)."""
    _md[0] += 1
    md = os.path.join(workdir(), "md%d_%d" % (os.getpid(), _md[0]))
    e = dict(os.environ)
    if env:
        e.update(env)
    # java is started directly (same class path and GC flag as the `tlc` wrapper) so that -Xss also
    # sizes the main thread, on which TLC evaluates ASSUMEs and initial states
    cmd = ["timeout", str(timeout), "java", "-Xss512m", "-Xmx%s" % xmx, "-XX:+UseParallelGC", "-cp",
           "/opt/veriftools/tla/tla2tools.jar:/opt/veriftools/tla/CommunityModules-deps.jar", "tlc2.TLC",
           "-workers", str(workers), "-metadir", md, "-config", cfg, "-noGenerateSpecTE"]
    if simulate:
        cmd += ["-simulate", simulate]
    if extra:
        cmd += extra
    cmd.append(module)
    p = subprocess.run(cmd, cwd=spec_dir(), env=e, capture_output=True, text=True)
    shutil.rmtree(md, ignore_errors=True)
    return p.stdout + p.stderr, p.returncode


def tlc_counts(out):
    m = re.search(r"(\d+) states generated (\d+) distinct states found", out.replace(",", ""))
    if not m:
        return None
    return {"generated": int(m.group(1)), "distinct": int(m.group(2))}


def model_check(module, cfg, workers=None, timeout=1800, xmx="8g", expect_violation=None):
    """R1.  A violated invariant here means the *specification* is inconsistent."""
    t0 = time.time()
    out, rc = tlc(module, cfg, workers=workers or NCPU, timeout=timeout, xmx=xmx)
    c = tlc_counts(out)
    if expect_violation:
        if rc == 0 or expect_violation not in out:
            raise Infra("negative model %s/%s did not produce the expected counterexample (%s):\n%s"
                        % (module, cfg, expect_violation, out[-3000:]))
        return {"module": module, "cfg": cfg, "negative": True, "expected_violation": expect_violation,
                "wall_s": round(time.time() - t0, 1)}
    if rc != 0 or c is None or "No error has been found" not in out:
        raise Infra("model check %s/%s failed (rc=%s):\n%s" % (module, cfg, rc, out[-4000:]))
    c.update(module=module, cfg=cfg, wall_s=round(time.time() - t0, 1))
    log("R1 %s %s: %d generated, %d distinct, %.1fs" % (module, cfg, c["generated"], c["distinct"], c["wall_s"]))
    return c


def unquote_tla_json(line):
    """PrintT(ToJson(x)) prints a TLA+ string literal holding JSON."""
    line = line.strip()
    if not (line.startswith('"') and line.endswith('"')):
        return None
    body = line[1:-1].replace('\\"', '"').replace("\\\\", "\\")
    try:
        return json.loads(body)
    except Exception:
        return None


def emit_states(cfg="MC_JSONMachine_cover.cfg"):
    """R2: one witness per reachable state of the grammar machine (and R1 on the way)."""
    t0 = time.time()
    out, rc = tlc("MC_JSONMachine.tla", cfg, workers=min(8, NCPU), xmx="8g")
    c = tlc_counts(out)
    if rc != 0 or c is None or "No error has been found" not in out:
        raise Infra("state-cover model check failed:\n" + out[-4000:])
    classes, states = None, []
    for line in out.splitlines():
        if not line.startswith('"['):
            continue
        v = unquote_tla_json(line)
        if v is None:
            continue
        if v[0] == "CLASSES":
            classes = v[1]
        elif v[0] == "STATE":
            _, key, k, c_, x, n, w, d, o, inp, comp, close, succ = v
            states.append({"key": key, "k": k, "c": c_, "x": x, "n": n, "w": w, "d": d, "out": o, "inp": inp, "comp": comp,
                           "close": close, "succ": [{"b": s[0], "out": s[1], "comp": s[2], "key": s[3]} for s in succ]})
    if classes is None or len(states) != c["distinct"]:
        raise Infra("state emission incomplete: %d states emitted, %d distinct" % (len(states), c["distinct"]))
    states.sort(key=lambda s: (len(s["inp"]), s["inp"]))
    path = os.path.join(workdir(), "states.json")
    with open(path, "w") as f:
        json.dump({"classes": classes, "states": states}, f)
    c.update(module="MC_JSONMachine.tla", cfg=cfg, wall_s=round(time.time() - t0, 1))
    log("R1/R2 state cover: %d generated, %d distinct states, %.1fs" % (c["generated"], c["distinct"], c["wall_s"]))
    return path, c, states


# --------------------------------------------------------------------- harness
def run_gen(vh, family, tier, seed, shards=None, states=None, walks=None, only=None, extra_env=None,
            timeout=3000, extra_args=None, halt_rc=None):
    out = os.path.join(workdir(), "ev_%s_%d" % (family, int(time.time() * 1000) % 100000))
    os.makedirs(out)
    cmd = ["timeout", str(timeout), vh, "gen", family, "-out", out, "-shards", str(shards or NCPU), "-tier", tier,
           "-seed", str(seed)]
    if states:
        cmd += ["-states", states]
    if walks:
        cmd += ["-walks", walks]
    if only:
        cmd += ["-only", only]
    if extra_args:
        cmd += extra_args
    e = dict(os.environ)
    if extra_env:
        e.update(extra_env)
    t0 = time.time()
    p = subprocess.run(cmd, env=e, capture_output=True, text=True)
    hang = os.path.join(out, "HANG")
    if os.path.exists(hang):
        return {"dir": out, "hang": open(hang).read(), "stderr": p.stderr}
    crash = os.path.join(out, "CRASH")
    if p.returncode != 0 and os.path.exists(crash) and "fatal error" in p.stderr:
        # the process died inside the library on the recorded case (reported like a hang: the real code did not return)
        txt = open(crash).read()
        try:
            ev = json.loads(txt)
        except Exception:
            ev = None
        return {"dir": out, "hang": txt[:2000] + " | " + p.stderr[:300], "crash_event": ev, "stderr": p.stderr}
    if halt_rc is not None and p.returncode == halt_rc:
        return {"dir": out, "halted": True, "files": [], "stderr": p.stderr}
    if p.returncode != 0:
        raise Infra("harness gen %s failed rc=%d:\n%s" % (family, p.returncode, (p.stdout + p.stderr)[-4000:]))
    stats = json.load(open(os.path.join(out, family + ".stats.json")))
    stats["gen_wall_s"] = round(time.time() - t0, 1)
    files = sorted(os.path.join(out, f) for f in os.listdir(out) if f.endswith(".ndjson"))
    files = [f for f in files if os.path.getsize(f) > 0]
    log("gen %s: %d events, %d evaluations, %.1fs" % (family, stats["events"], stats["evaluations"], stats["gen_wall_s"]))
    return {"dir": out, "files": files, "stats": stats, "stderr": p.stderr}


BAD_RE = re.compile(r'^<<"BAD", (\d+), (\d+), "([^"]*)", "([^"]*)">>')
NOTE_RE = re.compile(r'^<<"NOTE", (.*)>>$')


def validate(trace_module, cfg, files, timeout=3000, xmx="3g", par=None, extra_env=None):
    """R3: TLC validates each shard.  Returns (bad list, events consumed, notes)."""
    t0 = time.time()

    def one(path):
        env = {"TRACE": path}
        if extra_env:
            env.update(extra_env)
        out, rc = tlc(trace_module, cfg, workers=1, env=env, timeout=timeout, xmx=xmx)
        m = re.search(r'<<"TRACE-CONSUMED", (\d+)>>', out)
        if rc != 0 or not m:
            raise Infra("trace validation of %s did not complete (rc=%s):\n%s" % (path, rc, out[-3000:]))
        bads, notes = [], []
        for line in out.splitlines():
            if line.startswith('"[\\"BAD'):
                b = unquote_tla_json(line)
                if b is None:
                    raise Infra("unparseable BAD line: " + line[:300])
                bads.append({"file": path, "l": b[1], "row": b[2], "prop": b[3], "clause": b[4],
                             "trace": (trace_module, cfg)})
            elif line.startswith('<<"NOTE"'):
                notes.append(line)
        return bads, int(m.group(1)), notes

    bads, consumed, notes = [], 0, []
    if par is None:
        # every TLC instance may grow to its heap limit: do not start more of them than the memory that is
        # available right now can hold (an instance killed by the kernel is exit 2, not a verdict)
        par = NCPU
        try:
            avail_kb = int([l for l in open("/proc/meminfo") if l.startswith("MemAvailable")][0].split()[1])
            heap_gb = float(xmx.rstrip("g")) if xmx.endswith("g") else 3.0
            par = max(2, min(NCPU, int(avail_kb / 1048576.0 / (heap_gb + 0.6))))
        except Exception:
            pass
    with cf.ThreadPoolExecutor(max_workers=par or NCPU) as ex:
        for b, n, nt in ex.map(one, files):
            bads += b
            consumed += n
            notes += nt
    log("R3 %s: %d events validated over %d shards, %d BAD, %.1fs" % (trace_module, consumed, len(files), len(bads),
                                                                    time.time() - t0))
    return bads, consumed, notes


def event_at(path, l):
    with open(path) as f:
        for i, line in enumerate(f, 1):
            if i == l:
                return json.loads(line)
    raise Infra("event %d not found in %s" % (l, path))


def expand_segs(segs):
    out = []
    for unit, n in segs:
        out += unit * n
    return out


# --------------------------------------------------------------- known findings
def load_known():
    path = os.path.join(VERIF, "known-findings.txt")
    known = []
    if os.path.exists(path):
        for line in open(path):
            line = line.strip()
            if not line or line.startswith("#"):
                continue
            m = re.match(r"^known: property=(\S+) sig=(\S+) (.*)$", line)
            if m:
                known.append({"prop": m.group(1), "sig": m.group(2), "text": m.group(3)})
    return known


# -------------------------------------------------------------------- evidence
def write_evidence(pid, tier, seed, level, coverage, wall_s, violations, assumptions, extra=None):
    os.makedirs(os.path.join(VERIF, "evidence"), exist_ok=True)
    ev = {"property_id": pid, "tier": tier, "seed": seed, "level": level, "coverage": coverage,
          "assumptions": assumptions, "wall_s": round(wall_s, 1), "violations": violations}
    if extra:
        ev.update(extra)
    path = os.path.join(VERIF, "evidence", pid + ".json")
    if REPO != "/repo":      # development run against a scratch worktree: not evidence
        path = os.path.join(workdir(), pid + ".evidence.json")
    tmp = path + ".tmp%d" % os.getpid()
    with open(tmp, "w") as f:
        json.dump(ev, f, indent=1)
    os.replace(tmp, path)
    return path
