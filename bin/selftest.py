"""Binding self-test: corrupt recorded fields and require the trace specification to reject them."""
import json
import os
import subprocess

import vlib
from vlib import Infra, log


def corrupt_and_expect(vh, trace, case, mutate, expect_prop, label):
    d = vlib.workdir()
    p = os.path.join(d, "st_%s.json" % label)
    json.dump(case, open(p, "w"))
    r = subprocess.run([vh, "replay", p], capture_output=True, text=True)
    if r.returncode != 0:
        raise Infra("selftest replay failed: " + r.stderr)
    ev = json.loads(r.stdout)
    good = p + ".good.ndjson"
    open(good, "w").write(json.dumps(ev) + "\n")
    bads, n, _ = vlib.validate(trace[0], trace[1], [good], par=1)
    if bads:
        raise Infra("selftest %s: the uncorrupted event is rejected: %s" % (label, bads))
    mutate(ev)
    badp = p + ".bad.ndjson"
    open(badp, "w").write(json.dumps(ev) + "\n")
    bads, n, _ = vlib.validate(trace[0], trace[1], [badp], par=1)
    if not any(b["prop"] == expect_prop for b in bads):
        raise Infra("selftest %s: corrupted event was NOT rejected for %s (binding has no teeth)" % (label, expect_prop))
    log("selftest %s: corrupted field rejected (%s)" % (label, expect_prop))


def main():
    import families
    vh = vlib.build_harness()
    n = 0
    for t in families.SELFTESTS:
        corrupt_and_expect(vh, t["trace"], t["case"], t["mutate"], t["prop"], t["label"])
        n += 1
    print("selftest ok: %d corruptions rejected" % n)
    return 0
