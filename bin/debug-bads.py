#!/usr/bin/env python3
"""debug-bads.py <family> <trace.tla> <trace.cfg> [tier] [only]: generate, validate, summarise BAD events."""
import sys, os, json, collections
sys.path.insert(0, os.path.dirname(os.path.abspath(__file__)))
import vlib, families
fam, tm, cfg = sys.argv[1:4]
tier = sys.argv[4] if len(sys.argv) > 4 else "quick"
only = sys.argv[5] if len(sys.argv) > 5 else None
vh = vlib.build_harness()
states = None
if fam in ("parse", "handlers", "values", "trees", "compose"):
    states, _, _ = vlib.emit_states()
g = vlib.run_gen(vh, fam, tier, int(os.environ.get("VERIF_SEED", "1")), states=states, only=only)
bads, n, notes = vlib.validate(tm, cfg, g["files"])
cnt = collections.Counter((b["prop"], b["clause"]) for b in bads)
for k, v in cnt.most_common():
    print(v, k)
seen = collections.Counter()
for b in bads:
    k = (b["prop"], b["clause"])
    seen[k] += 1
    if seen[k] <= int(os.environ.get("SHOW", "3")):
        e = families.case_of(b)
        d = dict(e)
        if "in" in d:
            d["in_text"] = repr(bytes(d["in"])[:int(os.environ.get("W", "160"))]); d["in_len"] = len(d["in"]); del d["in"]
        print(k, json.dumps(d)[:int(os.environ.get("W2", "900"))])
