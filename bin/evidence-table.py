#!/usr/bin/env python3
"""evidence-table.py: a markdown table of what the last run of every check covered (from /verif/evidence/*.json)."""
import json, glob, os
rows = []
for f in sorted(glob.glob(os.path.join(os.path.dirname(os.path.dirname(os.path.abspath(__file__))), "evidence", "C*.json"))):
    e = json.load(open(f))
    c = e["coverage"]
    mcs = "; ".join("%s %s: %s" % (m.get("module", "").replace(".tla", ""), m.get("cfg", "").replace(".cfg", "").replace("MC_", ""),
                                   ("counterexample %s (expected)" % m["expected_violation"]) if m.get("negative") else "%d states" % m.get("distinct", 0))
                    for m in c.get("model_checks", []))
    rows.append("| %s | %s | %s | %d | %d | %d | %.0f s | %s |" % (e["property_id"], e["tier"], e["level"], c.get("states", 0), c.get("evaluations", 0),
                                                              c.get("traces_validated_against_impl", 0), e["wall_s"], mcs))
print("| check | tier | level | R1 states (sum) | real executions | events validated by TLC | wall | R1 models |")
print("|---|---|---|---|---|---|---|---|")
print("\n".join(rows))
