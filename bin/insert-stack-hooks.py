#!/usr/bin/env python3
"""insert-stack-hooks.py <repo-dir>: inserts the guarded verifStack hook calls (H3) into the generated machines and
the Buffer wrappers of a checkout of WillAbides/rjson.  Idempotent, add-only.  Used once to produce the hook commit in
/repo and again to re-base the seeded patches onto the hooked tree."""
import re, sys, os
d = sys.argv[1]
for f in ['skip_machine.rl.go', 'array_handler_machine.rl.go', 'object_handler_machine.rl.go']:
    p = os.path.join(d, f)
    s = open(p).read()
    if 'verifStack(' in s:
        continue
    s = re.sub(r'\n(\t+)top\+\+\n', lambda m: '\n%stop++\n%sverifStack(1, top, stack)\n' % (m.group(1), m.group(1)), s)
    s = re.sub(r'\n(\t+)cs = stack\[top\]\n', lambda m: '\n%scs = stack[top]\n%sverifStack(2, top, stack)\n' % (m.group(1), m.group(1)), s)
    s = re.sub(r'\n(\t+)((?:pp|_), err = handler\.Handle(?:Array|Object)Value\([^\n]*\))\n',
               lambda m: '\n%sverifStack(3, top, stack)\n%s%s\n%sverifStack(4, top, stack)\n' % (m.group(1), m.group(1), m.group(2), m.group(1)), s)
    open(p, 'w').write(s)
p = os.path.join(d, 'rjson.go')
r = open(p).read()
if 'verifStack(' not in r:
    r = re.sub(r'\n(\t+)(p, buffer\.stackBuf, err = (?:handleObjectValues|handleArrayValues|skipValue|skipValueFast)\([^\n]*\))\n',
               lambda m: '\n%sverifStack(0, 0, buffer.stackBuf)\n%s%s\n%sverifStack(5, 0, buffer.stackBuf)\n' % (m.group(1), m.group(1), m.group(2), m.group(1)), r)
    open(p, 'w').write(r)
HOOK = '''//go:build verif
// +build verif

package rjson

import "reflect"

// VerifStack, when set, observes how the stack machines use Buffer.stackBuf:
// ev 0 enter (a wrapper is about to call a machine with the Buffer's slice), 1 push, 2 pop,
// 3 handler about to be called, 4 handler returned, 5 leave (the wrapper stored the slice back).
// top is the machine's stack pointer after the step; val is the cell pushed or popped.
// Used by the verification harness only.
var VerifStack func(ev, top, length, capacity int, array uintptr, val int)

func verifStack(ev, top int, stack []int) {
	if VerifStack == nil {
		return
	}
	val := 0
	switch ev {
	case 1:
		val = stack[top-1]
	case 2:
		val = stack[top]
	}
	var ptr uintptr
	if cap(stack) > 0 {
		ptr = reflect.ValueOf(stack).Pointer()
	}
	VerifStack(ev, top, len(stack), cap(stack), ptr, val)
}
'''
NOHOOK = '''//go:build !verif
// +build !verif

package rjson

func verifStack(int, int, []int) {}
'''
open(os.path.join(d, 'verif_stack_hook.go'), 'w').write(HOOK)
open(os.path.join(d, 'verif_stack_nohook.go'), 'w').write(NOHOOK)
