"""Per-family pipelines and the table of checks."""
import hashlib
import json
import os
import subprocess
import sys
import time

import vlib
from vlib import Infra, log

ASSUME_COMMON = [
    "TLC evaluates the TLA+ definitions correctly (it is the oracle for every verdict)",
    "the Go harness reports what the real code returned (it computes no expected values)",
    "the Go toolchain's recover()/race detector/allocation counters observe panics, races and allocations faithfully",
]


# =============================================================== family: parse
def parse_r1(tier):
    """R1 for the grammar machine; returns (list of model-check results, states path, states)."""
    r1 = []
    states_path, c, states = vlib.emit_states()
    r1.append(c)
    cfgs = ["MC_JSONMachine_all.cfg"]
    if tier == "thorough":
        cfgs.append("MC_JSONMachine_struct.cfg")
    for cfg in cfgs:
        if os.path.exists(os.path.join(vlib.SPEC, cfg)):
            r1.append(vlib.model_check("MC_JSONMachine.tla", cfg))
    if os.path.exists(os.path.join(vlib.SPEC, "MC_FastSkip.cfg")):
        r1.append(vlib.model_check("MC_FastSkip.tla", "MC_FastSkip.cfg"))
    return r1, states_path, states


def spec_walks(tier, seed):
    """R2: random behaviours of the grammar machine (tlc -simulate), closed with Completion."""
    if not os.path.exists(os.path.join(vlib.SPEC, "MC_JSONWalk.cfg")):
        return None, 0
    num = 60 if tier == "quick" else 600
    out, rc = vlib.tlc("MC_JSONWalk.tla", "MC_JSONWalk.cfg", workers=1, simulate="num=%d" % num,
                       extra=["-depth", "400", "-seed", str(seed)], timeout=600)
    walks = []
    for line in out.splitlines():
        if line.startswith('"['):
            v = vlib.unquote_tla_json(line)
            if v and v[0] == "WALK":
                walks.append(v[1])
    if not walks:
        raise Infra("tlc -simulate produced no walks:\n" + out[-2000:])
    path = os.path.join(vlib.workdir(), "walks.json")
    json.dump(walks, open(path, "w"))
    log("R2 spec random walks: %d" % len(walks))
    return path, len(walks)


def run_parse(pid, tier, seed):
    vh = vlib.build_harness()
    r1, states_path, states = parse_r1(tier)
    walks, nwalks = spec_walks(tier, seed)
    g = vlib.run_gen(vh, "parse", tier, seed, states=states_path, walks=walks)
    res = {"r1": r1, "gens": [g], "trace": ("TraceParse.tla", "TraceParse.cfg")}
    if "hang" in g:
        res["hang"] = g["hang"]
        return res
    bads, consumed, notes = vlib.validate("TraceParse.tla", "TraceParse.cfg", g["files"])
    res.update(bads=bads, consumed=consumed, notes=notes, spec_walks=nwalks)
    return res


def parse_case(bad):
    """The failing case of a parse-family BAD line as a standalone doc event."""
    e = vlib.event_at(bad["file"], bad["l"])
    if e["op"] == "sweep":
        row = e["rows"][bad["row"] - 1]
        data = e["pre"] + [row[0]] + e["sufs"][row[1]]
        return {"op": "doc", "in": data, "o": row[2:]}
    return e


def parse_sig(case, clause):
    data = vlib.expand_segs(case["segs"]) if "segs" in case else case["in"]
    return "%s:%s" % (clause, hashlib.sha1(bytes(data)).hexdigest()[:12])


FAMILIES = {
    "parse": {"run": run_parse, "case": parse_case, "sig": parse_sig,
              "trace": ("TraceParse.tla", "TraceParse.cfg")},
}

# ====================================================================== checks
MC_NOTE = ("bounded model checking: TLC results hold for the stated constants (depth 3, length bounds); the real "
           "constants (depth 10000, 64-bit ints) are reached through trace validation of real executions; coverage of the "
           "implementation is what the generators reach")
PARSE_RULE = ("inputs = (every reachable state of the TLA+ grammar machine with position context: BFS witness) x (all 256 "
              "byte values) x (stop | canonical completion of the source state | of the successor state), plus the depth-limit "
              "family with the real constant, TLC random walks (-simulate), corpus files and random documents with byte "
              "mutations; distinct = distinct input bytes; non-trivial = longer than one byte")

CHECKS = {
    "C01": {"family": "parse", "level": "model_checking", "rule": PARSE_RULE,
            "technique": "TLA+ pushdown-machine spec; TLC exhaustive (R1) + state x byte sweep replayed into Valid and validated by TLC (R3)",
            "level_text": "The RFC 8259 recogniser is an explicit TLA+ pushdown machine, model-checked against an independent "
                          "recursive-descent formulation on every class string up to the bound; every reachable machine state "
                          "(with position context) is turned into inputs for the real Valid (all 256 next bytes, four buffer "
                          "configurations) and TLC recomputes the verdict for every recorded call, and for json.Valid.",
            "level_note": MC_NOTE},
    "C02": {"family": "parse", "level": "model_checking", "rule": PARSE_RULE + "; every completed value is followed by every byte value",
            "technique": "TLA+ pushdown-machine spec; TLC exhaustive (R1) + state x byte sweep replayed into SkipValue and validated by TLC (R3)",
            "level_text": "As C01 for SkipValue: success and exact end offset are recomputed by TLC from the machine for every "
                          "recorded call (nil and reused buffer) and for the stdlib streaming decoder; DoneIsStable and "
                          "MunchMaximal are model-checked.",
            "level_note": MC_NOTE},
    "C11": {"family": "parse", "level": "model_checking", "rule": PARSE_RULE + "; the clause applies where the specification says SkipValue succeeds",
            "technique": "TLA+ lock-step model of bracket-only skipping (R1) + trace validation of SkipValueFast against the strict machine (R3)",
            "level_text": "StrictImpliesFast is model-checked on the lock-step product of the strict machine and a transcription "
                          "of the fast skipper; every input on which the specification accepts is replayed into SkipValueFast "
                          "and the offset compared by TLC.",
            "level_note": MC_NOTE},
}

NOT_APPLICABLE = {}


def _set(ev, key, idx, val):
    ev[key][idx] = val


SELFTESTS = [
    {"label": "parse_valid", "trace": ("TraceParse.tla", "TraceParse.cfg"), "prop": "C01",
     "case": {"op": "doc", "in": [91, 49, 44, 32, 123, 125, 93, 32]},
     "mutate": lambda ev: _set(ev, "o", 0, 1 - ev["o"][0])},
    {"label": "parse_skip_offset", "trace": ("TraceParse.tla", "TraceParse.cfg"), "prop": "C02",
     "case": {"op": "doc", "in": [32, 49, 46, 53, 101, 51, 44]},
     "mutate": lambda ev: _set(ev, "o", 6, ev["o"][6] + 1)},
    {"label": "parse_fast_offset", "trace": ("TraceParse.tla", "TraceParse.cfg"), "prop": "C11",
     "case": {"op": "doc", "in": [91, 34, 93, 34, 93, 120]},
     "mutate": lambda ev: _set(ev, "o", 12, ev["o"][12] - 1)},
]


def reproduce(fam, case, pid, clause, vh):
    """Re-run the case on the real code and re-validate it; True if it fails again."""
    d = vlib.workdir()
    path = os.path.join(d, "replay_in_%d.json" % (int(time.time() * 1e6) % 10**9))
    json.dump(case, open(path, "w"))
    p = subprocess.run(["timeout", "300", vh, "replay", path], capture_output=True, text=True)
    if p.returncode == 4:
        return True, None  # hang reproduced
    if p.returncode != 0:
        raise Infra("replay failed: " + p.stderr[-2000:])
    ev_path = path + ".ndjson"
    open(ev_path, "w").write(p.stdout)
    tm, cfg = FAMILIES[fam]["trace"]
    bads, consumed, _ = vlib.validate(tm, cfg, [ev_path], par=1)
    fresh = json.loads(p.stdout.splitlines()[0])
    return any(b["prop"] == pid and b["clause"] == clause for b in bads) or \
        any(b["clause"] == "panic" and clause == "panic" for b in bads), fresh


def run_check(pid, tier, seed):
    t0 = time.time()
    spec = CHECKS[pid]
    fam = spec["family"]
    F = FAMILIES[fam]
    res = F["run"](pid, tier, seed)
    vh = vlib.build_harness()
    outdir = os.path.join(vlib.VERIF, "out", pid)
    os.makedirs(outdir, exist_ok=True)
    for f in os.listdir(outdir):
        os.remove(os.path.join(outdir, f))
    known = [k for k in vlib.load_known() if k["prop"] == pid]
    violations, known_hits, seen_sigs = [], [], set()
    if "hang" in res:
        path = os.path.join(outdir, "viol-hang.json")
        json.dump({"property": pid, "clause": "no_termination", "case": res["hang"]}, open(path, "w"))
        violations.append(path)
        print("VIOLATION property=%s replay=%s" % (pid, path))
    mine = [b for b in res.get("bads", []) if b["prop"] == pid or b["clause"] == "panic"]
    # reproduce at most a bounded number of distinct failing cases
    for b in mine:
        case = F["case"](b)
        sig = F["sig"](case, b["clause"])
        if sig in seen_sigs:
            continue
        seen_sigs.add(sig)
        if len(violations) >= 5:
            break
        ok, fresh = reproduce(fam, case, b["prop"], b["clause"], vh)
        if not ok:
            raise Infra("BAD event did not reproduce on replay (prop %s clause %s): %s"
                        % (b["prop"], b["clause"], json.dumps(case)[:500]))
        k = [k for k in known if sig.startswith(k["sig"]) or k["sig"] == sig]
        if k:
            known_hits.append(k[0])
            print("KNOWN-FINDING: property=%s %s" % (pid, k[0]["text"]))
            continue
        path = os.path.join(outdir, "viol-%d.json" % (len(violations) + 1))
        json.dump({"property": pid, "clause": b["clause"], "signature": sig, "family": fam, "event": case,
                   "fresh_event": fresh}, open(path, "w"))
        violations.append(path)
        print("VIOLATION property=%s replay=%s" % (pid, path))
    # evidence
    stats = {"evaluations": 0, "distinct_nontrivial": 0, "events": 0, "samples": []}
    for g in res["gens"]:
        s = g.get("stats")
        if s:
            stats["evaluations"] += s["evaluations"]
            stats["distinct_nontrivial"] += s["distinct_nontrivial"]
            stats["events"] += s["events"]
            stats["samples"] += s["samples"][:3]
    r1 = res.get("r1", [])
    cov = {
        "states": sum(c.get("distinct", 0) for c in r1),
        "transitions": sum(c.get("generated", 0) for c in r1),
        "traces_validated_against_impl": res.get("consumed", 0),
        "evaluations": stats["evaluations"],
        "distinct_nontrivial": stats["distinct_nontrivial"],
        "rule": spec["rule"],
        "samples": [json.loads(s) if s.startswith("{") else s for s in stats["samples"][:4]] or ["(none)"],
        "model_checks": r1,
        "events": stats["events"],
        "bad_events_all_properties": len(res.get("bads", [])),
        "known_findings_matched": [k["sig"] for k in known_hits],
        "exhaustive": False,
    }
    for k, v in res.items():
        if k.startswith("cov_"):
            cov[k[4:]] = v
    level = spec["level"]
    vlib.write_evidence(pid, tier, seed, level, cov, time.time() - t0, len(violations),
                        ASSUME_COMMON + spec.get("assumptions", []))
    log("%s %s: %d evaluations, %d events validated, %d violations, %d known findings, %.1fs"
        % (pid, tier, stats["evaluations"], res.get("consumed", 0), len(violations), len(known_hits), time.time() - t0))
    return 1 if violations else 0


def replay(path):
    ev = json.load(open(path))
    fam = ev.get("family")
    pid = ev.get("property")
    if fam not in FAMILIES:
        print("replay file has no known family")
        return 2
    vh = vlib.build_harness()
    ok, fresh = reproduce(fam, ev["event"], pid, ev["clause"], vh)
    print(json.dumps({"reproduced": ok, "fresh_event": fresh})[:4000])
    if ok:
        print("VIOLATION property=%s replay=%s" % (pid, path))
        return 1
    return 0


def sany():
    bad = 0
    for f in sorted(os.listdir(vlib.SPEC)):
        if f.endswith(".tla"):
            p = subprocess.run(["timeout", "120", "tla-sany", f], cwd=vlib.spec_dir(), capture_output=True, text=True)
            if p.returncode != 0 or "Semantic errors" in p.stdout or "Parse Error" in p.stdout or "Fatal" in p.stdout:
                print("SANY FAILED:", f)
                print(p.stdout[-1500:])
                bad += 1
    print("sany: %d modules failed" % bad)
    return 2 if bad else 0


def selftest():
    import selftest as st
    return st.main()
