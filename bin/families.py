"""Per-family pipelines and the table of checks."""
import hashlib
import json
import os
import subprocess
import sys
import time

import vlib
from vlib import Infra, log

ASSUME_COMMON = [
    "TLC evaluates the TLA+ definitions correctly (it is the oracle for every verdict)",
    "the Go harness reports what the real code returned (it computes no expected values)",
    "the Go toolchain's recover()/race detector/allocation counters observe panics, races and allocations faithfully",
]


# =============================================================== family: parse
def parse_r1(tier):
    """R1 for the grammar machine; returns (list of model-check results, states path, states)."""
    r1 = []
    states_path, c, states = vlib.emit_states()
    r1.append(c)
    cfgs = ["MC_JSONMachine_all.cfg"]
    if tier == "thorough":
        cfgs.append("MC_JSONMachine_struct.cfg")
    for cfg in cfgs:
        if os.path.exists(os.path.join(vlib.SPEC, cfg)):
            r1.append(vlib.model_check("MC_JSONMachine.tla", cfg))
    if os.path.exists(os.path.join(vlib.SPEC, "MC_FastSkip.cfg")):
        r1.append(vlib.model_check("MC_FastSkip.tla", "MC_FastSkip.cfg"))
    return r1, states_path, states


def spec_walks(tier, seed):
    """R2: random behaviours of the grammar machine (tlc -simulate), closed with Completion."""
    if not os.path.exists(os.path.join(vlib.SPEC, "MC_JSONWalk.cfg")):
        return None, 0
    num = 60 if tier == "quick" else 600
    out, rc = vlib.tlc("MC_JSONWalk.tla", "MC_JSONWalk.cfg", workers=1, simulate="num=%d" % num,
                       extra=["-depth", "400", "-seed", str(seed)], timeout=600)
    walks = []
    for line in out.splitlines():
        if line.startswith('"['):
            v = vlib.unquote_tla_json(line)
            if v and v[0] == "WALK":
                walks.append(v[1])
    if not walks:
        raise Infra("tlc -simulate produced no walks:\n" + out[-2000:])
    path = os.path.join(vlib.workdir(), "walks.json")
    json.dump(walks, open(path, "w"))
    log("R2 spec random walks: %d" % len(walks))
    return path, len(walks)


def nshards(tier):
    return 128 if tier == "thorough" else None


def run_parse(pid, tier, seed):
    vh = vlib.build_harness()
    r1, states_path, states = parse_r1(tier)
    walks, nwalks = spec_walks(tier, seed)
    g = vlib.run_gen(vh, "parse", tier, seed, states=states_path, walks=walks, shards=nshards(tier))
    res = {"r1": r1, "gens": [g], "trace": ("TraceParse.tla", "TraceParse.cfg")}
    if "hang" in g:
        res["hang"] = g["hang"]
        return res
    # the thorough tier of C11 also checks that the implementation-shaped FastSkip model agrees with the real
    # SkipValueFast on every input, malformed ones included (differences are conformance notes, not violations)
    conf = {"CONFORMANCE": "1"} if (pid == "C11" and tier == "thorough") or os.environ.get("VERIF_CONFORMANCE") else None
    bads, consumed, notes = vlib.validate("TraceParse.tla", "TraceParse.cfg", g["files"], extra_env=conf)
    res.update(bads=bads, consumed=consumed, notes=notes, spec_walks=nwalks)
    if conf:
        res["cov_fastskip_model_conformance_checked"] = True
    return res


def parse_case(bad):
    """The failing case of a parse-family BAD line as a standalone doc event."""
    e = vlib.event_at(bad["file"], bad["l"])
    if e["op"] == "sweep":
        row = e["rows"][bad["row"] - 1]
        data = e["pre"] + [row[0]] + e["sufs"][row[1]]
        return {"op": "doc", "in": data, "o": row[2:]}
    return e


def parse_sig(case, clause):
    data = vlib.expand_segs(case["segs"]) if "segs" in case else case["in"]
    return "%s:%s" % (clause, hashlib.sha1(bytes(data)).hexdigest()[:12])


# ============================================================ family: handlers
def run_handlers(pid, tier, seed):
    vh = vlib.build_harness()
    r1 = []
    states_path, c, states = vlib.emit_states()
    r1.append(c)
    for mod, cfg, neg in [("MC_HandlerRange.tla", "MC_HandlerRange_fixed.cfg", None),
                          ("MC_HandlerRange.tla", "MC_HandlerRange_wrapping.cfg", "InRange"),
                          ("MC_HandlersImpl.tla", "MC_HandlersImpl_thorough.cfg" if tier == "thorough" else "MC_HandlersImpl.cfg", None),
                          ("MC_HandlersImpl.tla", "MC_HandlersImpl_depth.cfg", None)]:
        if os.path.exists(os.path.join(vlib.SPEC, cfg)):
            r1.append(vlib.model_check(mod, cfg, expect_violation=neg))
    walks, nwalks = spec_walks(tier, seed)
    g = vlib.run_gen(vh, "handlers", tier, seed, states=states_path, walks=walks, shards=nshards(tier))
    res = {"r1": r1, "gens": [g]}
    if "hang" in g:
        res["hang"] = g["hang"]
        return res
    # thorough tier of C07: also check that the implementation-shaped HandlersImpl model predicts the real
    # traversal for every recorded answer sequence, hostile ones included (conformance notes, not violations)
    conf = {"CONFORMANCE": "1"} if (pid == "C07" and tier == "thorough") or os.environ.get("VERIF_CONFORMANCE") else None
    bads, consumed, notes = vlib.validate("TraceHandlers.tla", "TraceHandlers.cfg", g["files"], extra_env=conf)
    res.update(bads=bads, consumed=consumed, notes=notes, spec_walks=nwalks)
    if conf:
        res["cov_handlersimpl_model_conformance_checked"] = True
    return res


def handlers_case(bad):
    return vlib.event_at(bad["file"], bad["l"])


def handlers_sig(case, clause):
    key = json.dumps([case.get("kind"), case.get("in"), case.get("calls")])
    return "%s:%s" % (clause, hashlib.sha1(key.encode()).hexdigest()[:12])


def run_total(pid, tier, seed):
    """C10: the hostile-handler traversals plus every entry point on hostile inputs."""
    vh = vlib.build_harness()
    res = run_handlers(pid, tier, seed)
    if "hang" in res:
        return res
    g = vlib.run_gen(vh, "total", tier, seed)
    res["gens"].append(g)
    if "hang" in g:
        res["hang"] = g["hang"]
        if g.get("crash_event"):
            res["crash_event"] = g["crash_event"]
        return res
    bads, consumed, notes = vlib.validate("TraceTotal.tla", "TraceTotal.cfg", g["files"], xmx="3g")
    res["bads"] += bads
    res["consumed"] += consumed
    return res


VALUES_ONLY = {"C05": "int", "C06": "str", "C12": "decode,int", "C13": "tok", "C17": "san", "C16": "str,san,int,tok,decode"}


def run_values(pid, tier, seed):
    vh = vlib.build_harness()
    r1 = []
    states_path, c, states = vlib.emit_states()
    r1.append(c)
    for ent in VALUES_R1.get(pid, []):
        mod, cfg = ent[0], ent[1]
        if os.path.exists(os.path.join(vlib.SPEC, cfg)):
            r1.append(vlib.model_check(mod, cfg, expect_violation=ent[2] if len(ent) > 2 else None))
    g = vlib.run_gen(vh, "values", tier, seed, states=states_path, only=VALUES_ONLY.get(pid), shards=nshards(tier))
    res = {"r1": r1, "gens": [g]}
    if "hang" in g:
        res["hang"] = g["hang"]
        return res
    bads, consumed, notes = vlib.validate("TraceValues.tla", "TraceValues.cfg", g["files"])
    res.update(bads=bads, consumed=consumed, notes=notes)
    return res


def run_values_plus(pid, tier, seed):
    """C16 adds reader histories (value-tree ownership) and Buffer histories (results independent of the scratch buffer's past); C17 adds decoded trees through the slice/map helpers."""
    res = run_values(pid, tier, seed)
    if "hang" in res:
        return res
    vh = vlib.build_harness()
    if pid == "C16":
        g = vlib.run_gen(vh, "hist", tier, seed, only="rdr,buf")
        tm = ("TraceHist.tla", "TraceHist.cfg")
    else:
        g = vlib.run_gen(vh, "trees", tier, seed, only="shapes,random,corpus,depth")
        tm = ("TraceTrees.tla", "TraceTrees.cfg")
    res["gens"].append(g)
    if "hang" in g:
        res["hang"] = g["hang"]
        return res
    bads, consumed, _ = vlib.validate(tm[0], tm[1], g["files"], xmx="3g")
    res["bads"] += bads
    res["consumed"] += consumed
    return res


VALUES_R1 = {
    "C05": [("MC_Ints.tla", "MC_Ints.cfg"), ("MC_IntsImpl.tla", "MC_IntsImpl.cfg"), ("MC_IntsImpl.tla", "MC_IntsImpl_neg.cfg", "WordRefinesSpec")],
    "C06": [("MC_Strings.tla", "MC_Strings.cfg")],
    "C12": [("MC_Decode.tla", "MC_Decode.cfg")],
    "C13": [("MC_Tokens.tla", "MC_Tokens.cfg")],
    "C17": [("MC_Utf8.tla", "MC_Utf8.cfg")],
}

def float_lits():
    """R2 for the scanner model: TLC prints one literal per abstract class of a finished scan (VIEW)."""
    t0 = time.time()
    out, rc = vlib.tlc("MC_FloatScan.tla", "MC_FloatScan.cfg", workers=vlib.NCPU, xmx="8g")
    c = vlib.tlc_counts(out)
    if rc != 0 or c is None or "No error has been found" not in out:
        tail = "\n".join(l for l in out.splitlines() if "FLOATLIT" not in l)[-3000:]
        raise Infra("scanner-model cover failed (rc=%s):\n%s" % (rc, tail))
    lits = []
    for line in out.splitlines():
        if line.startswith('"['):
            v = vlib.unquote_tla_json(line)
            if v and v[0] == "FLOATLIT":
                lits.append(v[1])
    if len(lits) < 1000:
        raise Infra("scanner-model cover emitted only %d literals" % len(lits))
    path = os.path.join(vlib.workdir(), "floatlits.json")
    json.dump(lits, open(path, "w"))
    c.update(module="MC_FloatScan.tla", cfg="MC_FloatScan.cfg", wall_s=round(time.time() - t0, 1), class_witnesses=len(lits))
    log("R1/R2 scanner-model cover: %d generated, %d distinct, %d class witnesses, %.1fs" % (c["generated"], c["distinct"], len(lits), c["wall_s"]))
    return path, c, len(lits)


def run_floats(pid, tier, seed):
    vh = vlib.build_harness()
    r1 = [vlib.model_check("MC_Floats.tla", "MC_Floats.cfg")]
    # scanner model (FloatScan): R1 on every literal of the run space, R2 one witness literal per abstract class
    r1.append(vlib.model_check("MC_FloatScan.tla", "MC_FloatScan_thorough.cfg" if tier == "thorough" else "MC_FloatScan_all.cfg"))
    lits_path, c, nlits = float_lits()
    r1.append(c)
    g = vlib.run_gen(vh, "floats", tier, seed, shards=nshards(tier), states=lits_path)
    res = {"r1": r1, "gens": [g]}
    if "hang" in g:
        res["hang"] = g["hang"]
        return res
    bads, consumed, notes = vlib.validate("TraceFloats.tla", "TraceFloats.cfg", g["files"], xmx="3g")
    res.update(bads=bads, consumed=consumed, notes=notes)
    res["cov_conversion_paths"] = g["stats"].get("extra", {})
    return res


def run_trees(pid, tier, seed):
    vh = vlib.build_harness()
    r1, states_path, states = parse_r1("quick")
    walks, nwalks = spec_walks(tier, seed)
    lits_path, c, nlits = float_lits()
    r1.append(c)
    g = vlib.run_gen(vh, "trees", tier, seed, states=states_path, walks=walks, shards=nshards(tier),
                     extra_args=["-floatlits", lits_path])
    res = {"r1": r1, "gens": [g]}
    if "hang" in g:
        res["hang"] = g["hang"]
        return res
    bads, consumed, notes = vlib.validate("TraceTrees.tla", "TraceTrees.cfg", g["files"], xmx="3g")
    res.update(bads=bads, consumed=consumed, notes=notes)
    return res


def run_compose(pid, tier, seed):
    vh = vlib.build_harness()
    r1 = []
    states_path, c, states = vlib.emit_states()
    r1.append(c)
    r1.append(vlib.model_check("MC_Compose.tla", "MC_Compose_thorough.cfg" if tier == "thorough" else "MC_Compose.cfg"))
    walks, nwalks = spec_walks(tier, seed)
    g = vlib.run_gen(vh, "compose", tier, seed, states=states_path, walks=walks, shards=nshards(tier))
    res = {"r1": r1, "gens": [g]}
    if "hang" in g:
        res["hang"] = g["hang"]
        return res
    bads, consumed, notes = vlib.validate("TraceCompose.tla", "TraceCompose.cfg", g["files"], xmx="3g")
    res.update(bads=bads, consumed=consumed, notes=notes)
    return res


def run_hist(pid, tier, seed):
    vh = vlib.build_harness()
    r1 = []
    if pid == "C14":
        r1.append(vlib.model_check("StackBuf.tla", "MC_StackBuf_thorough.cfg" if tier == "thorough" else "MC_StackBuf.cfg"))
        r1.append(vlib.model_check("StackBuf.tla", "MC_StackBuf_neg.cfg", expect_violation="NoStaleRead"))
    else:
        for cfg, neg in [("MC_ReaderAlias.cfg", None), ("MC_ReaderAlias_neg.cfg", "ReturnedValuesImmutable")]:
            if os.path.exists(os.path.join(vlib.SPEC, cfg)):
                r1.append(vlib.model_check("ReaderAlias.tla", cfg, expect_violation=neg))
    g = vlib.run_gen(vh, "hist", tier, seed, only="buf" if pid == "C14" else "rdr")
    res = {"r1": r1, "gens": [g]}
    if "hang" in g:
        res["hang"] = g["hang"]
        return res
    bads, consumed, notes = vlib.validate("TraceHist.tla", "TraceHist.cfg", g["files"], xmx="3g")
    res.update(bads=bads, consumed=consumed, notes=notes)
    if pid == "C14":
        # the machines' internal stack events (hook H3) must be a behaviour of the StackBuf model
        g2 = vlib.run_gen(vh, "stack", tier, seed)
        res["gens"].append(g2)
        if "hang" in g2:
            res["hang"] = g2["hang"]
            return res
        bads2, consumed2, _ = vlib.validate("TraceStack.tla", "TraceStack.cfg", g2["files"], xmx="3g")
        res["bads"] += bads2
        res["consumed"] += consumed2
        res["cov_internal_stack_events_validated_against_StackBuf"] = consumed2
    return res


def run_alloc(pid, tier, seed):
    vh = vlib.build_harness()
    r1 = []
    if pid == "C20":
        r1.append(vlib.model_check("Hints.tla", "MC_Hints.cfg"))
        for neg in ("MC_Hints_oldA.cfg", "MC_Hints_oldB.cfg", "MC_Hints_oldC.cfg"):
            r1.append(vlib.model_check("Hints.tla", neg, expect_violation="Linear"))
    else:
        r1.append(vlib.model_check("MC_ZeroAlloc.tla", "MC_ZeroAlloc.cfg"))
    g = vlib.run_gen(vh, "alloc", tier, seed, only="zero" if pid == "C19" else "mem", shards=16)
    res = {"r1": r1, "gens": [g]}
    if "hang" in g:
        res["hang"] = g["hang"]
        return res
    bads, consumed, notes = vlib.validate("TraceAlloc.tla", "TraceAlloc.cfg", g["files"], xmx="3g")
    res.update(bads=bads, consumed=consumed, notes=notes)
    owed = 0
    for n in notes:
        m = __import__("re").search(r'"zero_owed", (\d+)', n)
        if m:
            owed += int(m.group(1))
    res["cov_zero_alloc_obligations_evaluated"] = owed
    if pid == "C19" and owed < 100:
        raise Infra("C19 is vacuous: zero allocations were owed in only %d events" % owed)
    return res


CONC_TRACES = {"parse": ("TraceParse.tla", "TraceParse.cfg"), "values": ("TraceValues.tla", "TraceValues.cfg"),
               "floats": ("TraceFloats.tla", "TraceFloats.cfg"), "trees": ("TraceTrees.tla", "TraceTrees.cfg"),
               "handlers": ("TraceHandlers.tla", "TraceHandlers.cfg")}


def conc_once(vh, tier, seed):
    racedir = os.path.join(vlib.workdir(), "race_%d" % (int(time.time() * 1000) % 1000000))
    os.makedirs(racedir)
    # the run stops at the first race report (exit code 66): a racy loop over a large array would otherwise produce
    # hundreds of megabytes of reports and take minutes; a report decides the no-race clause by itself
    g = vlib.run_gen(vh, "conc", tier, seed, shards=1, halt_rc=66,
                     extra_env={"GORACE": "log_path=%s/race halt_on_error=1 exitcode=66" % racedir})
    races = []
    for f in sorted(os.listdir(racedir)):
        txt = open(os.path.join(racedir, f)).read()
        if "DATA RACE" in txt:
            races.append(txt)
    return g, races


def run_conc(pid, tier, seed):
    vh = vlib.build_harness(race=True, name="vh_race")
    r1 = [vlib.model_check("Concurrent.tla", "MC_Concurrent.cfg"),
          vlib.model_check("Concurrent.tla", "MC_Concurrent_shared.cfg", expect_violation="SequentialResults")]
    g, races = conc_once(vh, tier, seed)
    res = {"r1": r1, "gens": [g], "bads": [], "consumed": 0}
    if "hang" in g:
        res["hang"] = g["hang"]
        return res
    if g.get("halted"):
        if not races:
            raise Infra("the race-enabled harness exited with the race exit code but left no report:\n" + g["stderr"][-2000:])
        res["gens"] = []
        res["cov_race_reports"] = len(races)
        res["cov_note"] = "the run was stopped by the first data race report; no results were validated in this run"
        again = []
        for attempt in range(5):
            g2, again = conc_once(vh, tier, seed)
            if again:
                break
        if not again:
            raise Infra("a data race report did not reproduce in 5 further runs:\n" + races[0][:3000])
        outdir = os.path.join(vlib.VERIF, "out", pid)
        os.makedirs(outdir, exist_ok=True)
        path = os.path.join(outdir, "race-report.txt")
        open(path, "w").write(races[0])
        res["direct_violations"] = [("data_race", path)]
        return res
    for fam, (tm, cfg) in CONC_TRACES.items():
        files = [f for f in g["files"] if os.path.basename(f).startswith("conc_%s_" % fam)]
        if not files:
            continue
        merged = os.path.join(g["dir"], "merged_%s.ndjson" % fam)
        # keep 16 shards: concatenate per-goroutine files round-robin into shards
        shards = [open(os.path.join(g["dir"], "m_%s_%02d.ndjson" % (fam, i)), "w") for i in range(min(16, len(files)))]
        for i, f in enumerate(files):
            shards[i % len(shards)].write(open(f).read())
        names = [s.name for s in shards]
        for s_ in shards:
            s_.close()
        bads, consumed, _ = vlib.validate(tm, cfg, names)
        # concurrency-dependent wrong results are attributed to C18
        for b in bads:
            b["conc"] = True
        res["bads"] += bads
        res["consumed"] += consumed
    res["cov_goroutines"] = g["stats"].get("extra", {}).get("goroutines")
    res["cov_rounds_gomaxprocs"] = g["stats"].get("extra", {}).get("rounds")
    res["cov_race_reports"] = len(races)
    if races:
        # "reproduces" for a schedule-dependent observation: the same driver and seed show a race again
        again = []
        for attempt in range(3):
            _, again = conc_once(vh, tier, seed)
            if again:
                break
        if not again:
            raise Infra("a data race report did not reproduce in 3 further runs:\n" + races[0][:3000])
        outdir = os.path.join(vlib.VERIF, "out", pid)
        os.makedirs(outdir, exist_ok=True)
        path = os.path.join(outdir, "race-report.txt")
        open(path, "w").write(races[0])
        res["direct_violations"] = [("data_race", path)]
    return res


FAMILIES = {
    "conc": {"run": run_conc},
    "alloc": {"run": run_alloc},
    "hist": {"run": run_hist},
    "compose": {"run": run_compose},
    "trees": {"run": run_trees},
    "floats": {"run": run_floats},
    "values": {"run": run_values},
    "values_plus": {"run": run_values_plus},
    "parse": {"run": run_parse},
    "handlers": {"run": run_handlers},
    "total": {"run": run_total},
}

# ====================================================================== checks
MC_NOTE = ("bounded model checking: TLC results hold for the stated constants (depth 3, length bounds); the real "
           "constants (depth 10000, 64-bit ints) are reached through trace validation of real executions; coverage of the "
           "implementation is what the generators reach")
PARSE_RULE = ("inputs = bases x next byte x continuation, where bases = (BFS witness of every reachable state of the TLA+ grammar "
              "machine: ~10 000 states carrying position, whitespace, escape-kind, digit and number-shape context) + (witness+byte for "
              "every viable transition of the state graph, so that every target is entered through every transition: ~70 000 bases); "
              "next byte = all 256 values for state bases, one per byte class for transition bases (thorough: all 256); continuation = "
              "stop | completion of the successor | for rejected bytes: completion of the source and token completions ('5', '0', "
              "quote, ...; thorough: all distinct token completions); plus depth limit x syntactic context with the real constant "
              "(every value-start state inflated to depth 10000/10001, siblings at the deepest level), digit runs 1..24 x next byte, "
              "whitespace runs 0..17 x byte x padding, string runs 0..40 and around the powers of two x (every byte value, escapes, backslash "
              "runs, multi-byte and truncated runes) x tails, TLC random walks (-simulate), corpus files, random documents with byte "
              "mutations; every input under nil / fresh / reused-and-grown / after-failure / handler-grown buffers, and in the caller's own "
              "array refilled with the input after a same-length document went through the same Buffer (in the same and in a different function), "
              "and in seven layouts of the caller's slice (capacity = length; spare capacity holding a digit, a quote, either closing "
              "bracket, the last letter of a literal, at seven start offsets); every string of up to 4 bytes over 01-+.e,]}[ space quote "
              "and every 5-byte string over 09-.eE,; 24 lenient sequences (byte order marks, Unicode spaces, comments, VT/FF/NUL) at "
              "every whitespace position; "
              "distinct = distinct input bytes; non-trivial = longer than one byte")

CHECKS = {
    "C01": {"family": "parse", "level": "model_checking", "rule": PARSE_RULE,
            "technique": "TLA+ pushdown-machine spec; TLC exhaustive (R1) + state x byte sweep replayed into Valid and validated by TLC (R3)",
            "level_text": "The RFC 8259 recogniser is an explicit TLA+ pushdown machine, model-checked against an independent "
                          "recursive-descent formulation on every class string up to the bound; every reachable machine state "
                          "(with position context) is turned into inputs for the real Valid (all 256 next bytes, four buffer "
                          "configurations) and TLC recomputes the verdict for every recorded call, and for json.Valid.",
            "level_note": MC_NOTE},
    "C02": {"family": "parse", "level": "model_checking", "rule": PARSE_RULE + "; every completed value is followed by every byte value",
            "technique": "TLA+ pushdown-machine spec; TLC exhaustive (R1) + state x byte sweep replayed into SkipValue and validated by TLC (R3)",
            "level_text": "As C01 for SkipValue: success and exact end offset are recomputed by TLC from the machine for every "
                          "recorded call (nil and reused buffer) and for the stdlib streaming decoder; DoneIsStable and "
                          "MunchMaximal are model-checked.",
            "level_note": MC_NOTE},
    "C11": {"family": "parse", "level": "model_checking", "rule": PARSE_RULE + "; the clause applies where the specification says SkipValue succeeds",
            "technique": "TLA+ lock-step model of bracket-only skipping (R1) + trace validation of SkipValueFast against the strict machine (R3)",
            "level_text": "StrictImpliesFast is model-checked on the lock-step product of the strict machine and a transcription "
                          "of the fast skipper; every input on which the specification accepts is replayed into SkipValueFast "
                          "and the offset compared by TLC.",
            "level_note": MC_NOTE},
}

HANDLERS_RULE = ("traversals = (state bases and transition bases of the TLA+ grammar machine inside an array/object x byte-class "
                 "members x completion / reject continuations) x handler strategies (all-0, all-exact, mixes), plus random/corpus/walk "
                 "documents x (random well-behaved mixes; an error at every call position with every kind of accompanying offset; "
                 "hostile answers near the integer limits; every offset from the start of the document to beyond the member at every "
                 "call position, once and repeated), plus containers nested 6200 / 8200 / 10000 deep in three array/object mixtures x "
                 "(all-0, all-exact) x (no Buffer, a new one, Buffers left behind by Valid / SkipValue / SkipValueFast / a traversal "
                 "after an array nested 1, 2, 3, 64, 625, 5000 deep); distinct = distinct (document, script); non-trivial = at least "
                 "one handler call")
CHECKS.update({
    "C07": {"family": "handlers", "level": "model_checking", "rule": HANDLERS_RULE,
            "technique": "TLA+ member-table spec (grammar) + protocol model; recorded handler call logs validated by TLC (R3)",
            "level_text": "The member table (offsets of every member value and raw key range) and the success condition are "
                          "computed by TLC from the TLA+ grammar for every recorded traversal and compared with the recording "
                          "handler's call log (offsets recovered from slice capacities); 'exact' answers come from encoding/json "
                          "and are re-derived by the specification.",
            "level_note": MC_NOTE},
    "C09": {"family": "handlers", "level": "model_checking", "rule": HANDLERS_RULE,
            "technique": "TLA+ action property ErrorStopsAndIsIdentical; recorded traversals with sentinel errors validated by TLC (R3)",
            "level_text": "Every recorded traversal in which the handler returned an error is checked: the failing call is the last "
                          "call and the result is the identical sentinel (pointer equality logged by the harness), for every call "
                          "position and accompanying offset of the hostile domain.",
            "level_note": MC_NOTE},
})

CHECKS.update({
    "C10": {"family": "total", "level": "exploration",
            "rule": HANDLERS_RULE + "; plus every exported function and method (46 entry points, incl. the ValueReader readers on a used reader and its handler methods called directly and handed to the traversal functions on zero and used readers, x nil/reused buffer) on nests of 9999..10^6 in 8 "
                    "array/object mixtures x 6 bottoms x closed/unclosed/over-closed, megabyte runs of 31 single tokens in 9 wrappers, all "
                    "1- and 2-byte inputs over a hostile alphabet, random documents with mutations",
            "technique": "TLA+ wrapping-arithmetic model of the resync range check (R1, with a negative config reproducing the overflow) + totality trace validation of all entry points (R3)",
            "level_text": "Totality cannot be proved by execution; the offset arithmetic of the handler protocol is model-checked in "
                          "wrapping W-bit arithmetic (the pre-fix variant yields the real overflow counterexample, the fixed variant "
                          "passes), and every exported function is executed under recover() and a watchdog on hostile inputs and "
                          "handler answers, with TLC checking 'normal return, nil error => offset in range, unusable answer => error'.",
            "level_note": "sampled: 'never' over all inputs is established only on the explored ones; panics observed via recover(), "
                          "non-termination via a 60 s no-progress watchdog"},
})

CHECKS.update({
    "C05": {"family": "values", "level": "model_checking",
            "rule": "digit strings: every value within +-40 (thorough +-300) of 2^7..2^64, 10^9..10^21, 2^64/10, with and without sign, "
                    "followed by 17 (thorough: all 256) next bytes; 1..24-digit 1/9/10^n ladders; a sign followed by every byte value; "
                    "leading whitespace 0..24 x digit runs 1..24; digit runs with one position replaced; special forms; random digit "
                    "strings; each through 6 readers and 6 Decode forms; distinct = distinct input; non-trivial = longer than one byte",
            "technique": "TLA+ digit-sequence spec of integer tokens and ranges + implementation-shaped TLA+ model of the readers' two loops (R1 exhaustive on scaled-down words, negative configuration) + TLC validation of recorded reads (R3)",
            "level_text": "IntRead is defined over digit sequences in TLA+ and model-checked exhaustively against integer arithmetic on "
                          "8-bit types; the implementation-shaped model IntsImpl (unchecked loop, checked loop with cutoff and wrap-around "
                          "tests, sign handling, narrow readers) is model-checked to compute IntRead on 8- and 16-bit words; every recorded "
                          "call of the twelve integer entry points is recomputed by TLC (success, exact value as digits, sign, end offset) "
                          "and compared with IntsImpl (conformance notes, error offsets included).",
            "level_note": MC_NOTE + "; the harness prints returned integers with strconv (trusted printing)"},
    "C06": {"family": "values", "level": "model_checking",
            "rule": "string inputs: (top-level string states of the TLA+ machine x all 256 bytes x stop/completion), \\u sweep over the 65536 "
                    "code units (quick: one per 16 + boundaries), surrogate grid, pairs broken by every byte at every position, every byte at "
                    "every position of templates, growth-boundary lengths x destination slack, random strings and mutations; each through "
                    "ReadString (nil/dirty/tiny scratch), ReadStringBytes (nil/prefixed destination), DecodeString, and UnescapeStringContent "
                    "on the bytes between the quotes",
            "technique": "TLA+ spec of string tokens and escape decoding (R1 on class strings) + TLC validation of recorded string reads byte for byte (R3)",
            "level_text": "Well-formedness, end offset and decoded bytes are recomputed by TLC from Strings.tla for every recorded call, "
                          "without any U+FFFD sanitising; the string states of the grammar machine are swept with all 256 bytes.",
            "level_note": MC_NOTE},
    "C12": {"family": "values", "level": "model_checking",
            "rule": "9 Decode functions x (fixed zoo of null forms, literals, numbers at type bounds, strings; every one-byte corruption of "
                    "null; every 1- and 2-byte malformed prefix followed by null / true / 1 / a string; random scalar documents and "
                    "mutations) x distinctive and zero-valued prior targets (incl. -0), plus sequences of DecodeString calls into one "
                    "target with one scratch",
            "technique": "TLA+ DecodeSpec (reader outcome x null x prior target, R1 exhaustive) + TLC validation of recorded Decode calls against the recorded reader outcome (R3)",
            "level_text": "DecodeSpec is a function of the corresponding reader's outcome, the input and the prior target; TLC checks every "
                          "recorded call (two different non-zero priors per input, so a write of any constant is seen).",
            "level_note": MC_NOTE + "; the reader outcome used in the clause is the recorded outcome of the real reader on the same input (its correctness is C04/C05/C06/C13)"},
    "C13": {"family": "values", "level": "model_checking",
            "rule": "every byte value after every whitespace prefix of length <= 3 over the four whitespace bytes (85 x 257, exhaustive); "
                    "every one-byte corruption (256 values at each position), truncation and following byte of true/false/null with 4 "
                    "whitespace prefixes and padding of several lengths; whitespace runs 0..17 x every byte value x padded tails; "
                    "first-token zoo; random documents; 13 typed readers observed on every input; TokenType.String for the reported type and for the first byte taken as a raw TokenType value (a note clause)",
            "technique": "TLA+ token table and literal acceptors + exhaustive byte x whitespace-prefix sweep validated by TLC (R3)",
            "level_text": "The token table, whitespace set and literal acceptors are TLA+ definitions; the enumerated input sets are "
                          "complete for the stated shapes and every recorded result is recomputed by TLC; type exclusivity is asserted "
                          "over 13 typed readers on every input.",
            "level_note": MC_NOTE},
    "C16": {"family": "values_plus", "level": "exploration",
            "rule": "every event of the values family carries an input-unchanged bit (private copy compared after the calls); string "
                    "readers and UnescapeStringContent and StdLibCompatibleStringBytes with prefixed destinations over growth-boundary "
                    "slack; dirty, tiny, nil-slice, empty and roomy scratch buffers; results re-read after the harness overwrites input and scratch (as updated by the call); reader histories (returned trees re-serialised later) and Buffer histories (outcome with a used Buffer = outcome with none)",
            "technique": "TLA+ append/ownership clauses (dst o Produce(in)); recorded results before and after overwrites validated by TLC (R3)",
            "level_text": "Memory ownership cannot be enumerated; the clauses (input unchanged, result = destination prefix followed by "
                          "the specified bytes, result unchanged after later overwrites) are evaluated by TLC on every recorded call.",
            "level_note": "sampled shapes of (len, cap, contents); aliasing destinations are outside the quantifier; value trees are covered by the C15/C03 events"},
    "C17": {"family": "values_plus", "level": "model_checking",
            "rule": "all 1- and 2-byte sequences (65792, exhaustive), all 3-byte (thorough: and 4-byte) sequences over the 28 UTF-8 boundary "
                    "bytes, random longer sequences, damaged valid strings; long inputs with runes across every offset around the powers of two; StdLibCompatibleStringBytes with destination shapes; decoded trees through the slice/map helpers, including values nested 9999 / 10000 deep with invalid UTF-8 at the bottom and in the keys on the way down",
            "technique": "TLA+ Utf8Sanitize (Unicode table 3-7; R1: idempotent, identity on valid) + TLC validation of recorded helper outputs (R3)",
            "level_text": "Utf8Sanitize is defined from the Unicode well-formedness table and model-checked for idempotence and identity on "
                          "valid input over all boundary-byte sequences <= 4; recorded outputs of the helpers are compared byte for byte.",
            "level_note": MC_NOTE + "; all 3-byte sequences are covered through boundary bytes, not literally; the slice/map helpers are checked on C03's trees"},
})

CHECKS.update({
    "C04": {"family": "floats", "level": "exploration",
            "rule": "literals: one witness per abstract class of the TLA+ scanner model FloatScan (digits kept x truncation x mantissa against "
                    "2^52/2^53/2^63/10^15 x exponent against every bound the code tests x exponent clamp x magnitude against the overflow/"
                    "underflow screens; about 3000 classes, emitted by TLC); exact halfway points between adjacent float64s (random, near powers of two, subnormal, near max) and their "
                    "neighbours (last digit +-1, appended digits) in several spellings; overflow/underflow thresholds; mantissa lengths "
                    "1..1100 x exponent windows; the deciding digit placed at 19, 20, 767..769, 799..802, 900 significant digits; zeros of "
                    "every spelling and length with both signs; digit runs 1..24 in every part x next byte; every row of the 696-row "
                    "power-of-ten table with short, 19-digit and truncated mantissas plus hook-guided search for the wide-multiplication "
                    "branch; >800-digit mantissas; random literals; each followed by a non-continuation byte; through ReadFloat64, "
                    "DecodeFloat64, ReadValue and strconv.ParseFloat; distinct = distinct input",
            "technique": "TLA+ exact-arithmetic rounding relation (limb bignums; R1 on a scaled-down format) evaluated by TLC on recorded conversions (R3); implementation-shaped scanner/path model FloatScan (R1 faithfulness, R2 class witnesses, hooks H4/H1 for conformance notes and coverage)",
            "level_text": "A sampled infinite domain with an exact oracle: 'nearest, ties to even, sign of zero, overflow threshold, end offset' is a "
                          "TLA+ relation over unbounded naturals which TLC evaluates for every recorded result (and for strconv's). The relation's "
                          "algebra is model-checked exhaustively on a 4-bit/3-bit format. No exhaustiveness is claimed for binary64.",
            "level_note": "TLC is used as an exact calculator here, not as a state-space explorer; a one-bit change deep in a table row may be "
                          "visible only on inputs nobody can enumerate; conversion-path counts (hook H1) are reported in the evidence"},
})

CHECKS.update({
    "C03": {"family": "trees", "level": "model_checking",
            "rule": "documents: tree shapes (duplicate keys in raw and escaped spelling, empty containers, big-then-small siblings, numbers "
                    "incl. overflow, boundary code points as escapes, invalid UTF-8 in keys and values before every kind of value, "
                    "malformed variants), (state bases and every transition base of the TLA+ machine x one member of every byte class x "
                    "completion / reject continuation), depth 9999/10000/10001 in 6 array/object mixtures with the real constant, TLC "
                    "random walks, corpus, random documents with mutations; each through ReadValue, a reused ValueReader with a fixed "
                    "warm-up history, ReadObject, ReadArray and json.Unmarshal; distinct = distinct input; non-trivial = longer than one "
                    "byte",
            "technique": "TLA+ recursive-descent grammar producing value trees (R1: equals the pushdown machine) + TLC tree matching of recorded decodes, float leaves by the rounding relation (R3)",
            "level_text": "The value tree (last duplicate wins, decoded strings and keys, numbers as literals) is computed by TLC from "
                          "JSONGrammar for every recorded call and matched against the canonicalised result; success is required exactly "
                          "when the grammar accepts, depth <= 10000 and no number overflows; encoding/json's tree must match after the "
                          "specification's UTF-8 replacement.",
            "level_note": MC_NOTE + "; trees deeper than 100 are checked for success/offset only (recorded as 'big')"},
})

CHECKS.update({
    "C08": {"family": "compose", "level": "model_checking",
            "rule": "decoders = 8 program kinds (all-typed, all-SkipValue, all-SkipValueFast, all-return-0, ValueReader, Decode forms, random "
                    "mixes with and without SkipValueFast) with a recorded per-member choice stream, nil or re-entrantly shared Buffer; "
                    "documents = tree shapes, (machine states x byte classes x completion), TLC walks, corpus, random documents and "
                    "mutations; documents at and just below the nesting limit decoded by recursing through the handlers with no Buffer, a new one, "
                    "and a long-lived one that the same decoder took through an over-deep / unclosed / limit-deep document before; "
                    "distinct = distinct (document, program kind, seed); non-trivial = at least one member choice",
            "technique": "TLA+ compositionality invariant (member slices re-parse to the same subtree/offset, R1 exhaustive) + TLC validation of recorded API-composition decoders (R3)",
            "level_text": "R1 proves on all structural strings up to the bound that every member slice parses on its own to the member's "
                          "subtree and end offset; the recorded decoders (written only against the public API) are checked by TLC for "
                          "final offset, reconstructed tree, and rejection by validating programs.",
            "level_note": MC_NOTE},
})

CHECKS.update({
    "C14": {"family": "hist", "level": "model_checking",
            "rule": "all ordered pairs of steps on one Buffer - first (document nested 1, 2, 3, 5, 64, 625, 1000, 5000, 6000 deep, 10002, 10003, 10004 deep, or at / around / beyond the depth limit, function), then (document deep but legal or at / around / beyond the limit, function) -, and histories of 2..6 calls on one Buffer over Valid, SkipValue, SkipValueFast, HandleArrayValues, HandleObjectValues x a document "
                    "alphabet with one representative per outcome class (shallow/deep ok, syntax error at depth, depth-limit error, truncated deep "
                    "nests, 10000/10001 nests, random containers and mutations) x 7 handler behaviours (return 0; exact offset via SkipValue / "
                    "SkipValueFast on the enclosing buffer; abort with an error at call k; recursive nested traversals sharing the buffer; Valid on "
                    "the same buffer; unrelated deep and failing documents through the same buffer mid-traversal); every step is also run with no "
                    "buffer; distinct = distinct history",
            "technique": "TLA+ model of slice headers/arrays/activations (NoStaleRead, R1 with a negative config) + TLC validation of recorded histories: shared-buffer outcome = nil-buffer outcome = spec (R3) + trace validation of the machines' internal stack events (hook H3) against the StackBuf actions (conformance notes)",
            "level_text": "The stack discipline (local header and top per activation, handler invoked only at top = 0, header stored back on "
                          "every exit, in-place vs re-allocating growth) is model-checked for stale reads, with a negative configuration that "
                          "must fail; recorded histories including re-entrant sharing are checked step by step by TLC against the no-buffer "
                          "outcome and the history-free specification.",
            "level_note": MC_NOTE + "; verdicts come from outcomes observed at the API (results and handler call logs); the stack events recorded through hook H3 bind the StackBuf model to the code and produce notes only"},
    "C15": {"family": "hist", "level": "model_checking",
            "rule": "histories of 2..6 ReadValue/ReadObject/ReadArray calls on one ValueReader over tree-shape documents, random documents and "
                    "mutations, 10001-deep and truncated deep nests, with forced GCs (sync.Pool perturbation), input overwritten after every "
                    "call, caller scribbling over half of the results; every step also on a brand-new reader; every unmodified earlier result "
                    "re-serialised after every later call; distinct = distinct history",
            "technique": "TLA+ history-free reader spec (Value trees) + aliasing model (R1 with a negative config) + TLC validation of recorded reader histories and rechecks (R3)",
            "level_text": "Each step's result must equal the fresh reader's and the grammar's tree (TLC), and every earlier returned value must "
                          "be unchanged when re-serialised later; the aliasing model shows why fresh allocation per container is required.",
            "level_note": MC_NOTE},
})

CHECKS.update({
    "C19": {"family": "alloc", "level": "exploration",
            "rule": "testing.AllocsPerRun over: 14 integer/float entry points x integers at type bounds; ReadFloat64/DecodeFloat64 x "
                    "literals on every conversion path (hook-confirmed, incl. the multiprecision fallback) and random literals; "
                    "bool/null/token readers; ReadStringBytes/UnescapeStringContent x strings with escapes, pairs, invalid UTF-8 x "
                    "destination prefix/slack with capacity >= input length; "
                    "SkipValue/SkipValueFast/Valid/HandleArrayValues/HandleObjectValues (handlers returning 0 or the exact offset via "
                    "SkipValue) x nests up to 9999 and random containers with a Buffer warmed on a document at least as deep - by the same "
                    "function, by every other function (first call measured), and after short calls of every function in between; distinct "
                    "= distinct (function, input, destination shape)",
            "technique": "TLA+ ZeroOwed predicate (success, buffer warm depth via the machine's MaxDepthReached, destination capacity) decides when zero is owed; allocation counts recorded by the Go runtime validated by TLC (R3)",
            "level_text": "The allocation count is measured by the Go runtime; the specification decides from the history (warm-up document "
                          "depth computed with the grammar machine, destination capacity, success) whether zero is owed, and TLC checks "
                          "owed => 0 on every recorded measurement; the run is rejected as vacuous if fewer than 100 obligations were owed.",
            "level_note": "sampled inputs; numbers come from testing.AllocsPerRun (5 runs after one warm call; re-measured when non-zero) or, "
                    "where the first call matters, from a single-shot runtime.MemStats.Mallocs delta; handlers are pre-allocated pointer "
                    "receivers; the cross-function warm-up pairs that allocate on the pinned code are listed in known-findings.txt"},
    "C20": {"family": "alloc", "level": "model_checking",
            "rule": "bytes allocated (runtime.MemStats.TotalAlloc) for ~100 document shapes (ordinary and adversarial: every combination of "
                    "outer container x wrapped large first child x kind of small later children, alternating sizes, escapes at every "
                    "nesting level, long strings of unicode / surrogate / simple escapes, escape then long tail, deep nests) at 3 (thorough "
                    "4) scales 4x apart through ReadValue / SkipValue / Valid / SkipValueFast / traversals / ReadString / ReadStringBytes, "
                    "plus ~70 histories on one reader/buffer (large document through every reader function, then 2000 (thorough 20000) "
                    "small succeeding or failing documents); GOMAXPROCS fixed to 4",
            "technique": "TLA+ allocation-policy model with amortised-linearity invariant (R1; three negative configs reproduce the pre-fix policies) + TLC accounting of recorded allocation totals: absolute bound and scale-ratio test (R3)",
            "level_text": "The hint and scratch policies are model-checked for amortised linearity (alloc <= 2*input + potential) and the three "
                          "pre-fix policies are kept as configurations that must fail; measured totals are checked by TLC against "
                          "8192 B per input byte + 16 KiB per call, a 64 B/byte carry-over from earlier documents, and per-byte cost at most "
                          "doubling when the size quadruples.",
            "level_note": "constants have >= 8x margin over the worst legitimate shape measured (nested arrays: ~600 B/B at GOMAXPROCS=4, dominated "
                          "by sync.Pool's per-P arrays); adversarial shapes are the ones the policy model's counterexamples suggest, scaled up"},
})

CHECKS.update({
    "C18": {"family": "conc", "level": "exploration",
            "rule": "12 goroutines x rounds with GOMAXPROCS 1,2,4,16 (thorough: 8 rounds): after a start barrier a first-use storm (every "
                    "value of TokenType, every entry point on tiny inputs), then barrier-separated phases in which all goroutines run the "
                    "parse, tree, traversal, integer, float, string, token, Decode and sanitising observers over the same window of six "
                    "shared read-only inputs (half of them in their own order) with private buffers/readers/destinations; malformed nested "
                    "documents included; binary built with -race; distinct = distinct (observer, input)",
            "technique": "TLA+ model of independent processes (R1: results are functions of own arguments; negative config with shared scratch) + every concurrent result validated by TLC against the sequential specifications (R3); Go race detector as the observer of the no-race clause",
            "level_text": "Real interleavings are sampled by the Go scheduler, not enumerated; each recorded result of each goroutine is "
                          "validated by TLC against the sequential specification of the call (that is 'exactly the results they produce one "
                          "after another'), and the race detector's reports, re-confirmed by re-running the same seed, decide the data-race clause.",
            "level_note": "the harness shares nothing between goroutines (own files, statistics, no locks) so that it adds no happens-before edges; "
                          "TLC enumerates interleavings only of the abstract model, where the property is immediate"},
})

NOT_APPLICABLE = {}


def _set(ev, key, idx, val):
    ev[key][idx] = val


SELFTESTS = [
    {"label": "handlers_call_dropped", "trace": ("TraceHandlers.tla", "TraceHandlers.cfg"), "prop": "C07",
     "case": {"op": "handle", "kind": 65, "in": [91, 49, 44, 34, 97, 34, 44, 91, 93, 93], "buf": 0, "calls": []},
     "mutate": lambda ev: ev["calls"].pop(1)},
    {"label": "handlers_key_range", "trace": ("TraceHandlers.tla", "TraceHandlers.cfg"), "prop": "C07",
     "case": {"op": "handle", "kind": 79, "in": [123, 34, 97, 98, 34, 58, 49, 125], "buf": 0, "calls": []},
     "mutate": lambda ev: _set(ev["calls"], 0, 1, ev["calls"][0][1] + 1) if False else ev["calls"][0].__setitem__(1, ev["calls"][0][1] + 1)},
    {"label": "handlers_error_identity", "trace": ("TraceHandlers.tla", "TraceHandlers.cfg"), "prop": "C09",
     "case": {"op": "handle", "kind": 65, "in": [91, 49, 44, 50, 93], "buf": 0, "calls": [[0, 0, 0, 0, 0, 0, 0], [0, 0, 0, 0, 0, 7, 0]]},
     "mutate": lambda ev: _set(ev, "res", 2, -2)},
    {"label": "total_offset", "trace": ("TraceTotal.tla", "TraceTotal.cfg"), "prop": "C10",
     "case": {"op": "total", "in": [49, 50]},
     "mutate": lambda ev: ev["r"][2].__setitem__(3, 9)},
    {"label": "parse_valid", "trace": ("TraceParse.tla", "TraceParse.cfg"), "prop": "C01",
     "case": {"op": "doc", "in": [91, 49, 44, 32, 123, 125, 93, 32]},
     "mutate": lambda ev: _set(ev, "o", 0, 1 - ev["o"][0])},
    {"label": "parse_skip_offset", "trace": ("TraceParse.tla", "TraceParse.cfg"), "prop": "C02",
     "case": {"op": "doc", "in": [32, 49, 46, 53, 101, 51, 44]},
     "mutate": lambda ev: _set(ev, "o", 6, ev["o"][6] + 1)},
    {"label": "parse_fast_offset", "trace": ("TraceParse.tla", "TraceParse.cfg"), "prop": "C11",
     "case": {"op": "doc", "in": [91, 34, 93, 34, 93, 120]},
     "mutate": lambda ev: _set(ev, "o", 12, ev["o"][12] - 1)},
    # floats: the last mantissa word of ReadFloat64's result off by one ulp -> C04
    {"label": "float_one_ulp", "trace": ("TraceFloats.tla", "TraceFloats.cfg"), "prop": "C04",
     "case": {"op": "float", "in": [48, 46, 49, 101, 45, 53]},
     "mutate": lambda ev: ev["r"][0].__setitem__(6, ev["r"][0][6] ^ 1)},
    # hook H4: the recorded decimal exponent of readFloat off by one -> conformance note of the scanner model
    {"label": "float_scan_exponent", "trace": ("TraceFloats.tla", "TraceFloats.cfg"), "prop": "NOTE",
     "case": {"op": "float", "in": [49, 50, 51, 52, 53, 54, 55, 56, 57, 48, 49, 50, 51, 52, 53, 54, 55, 56, 57, 48, 49, 46, 53, 101, 45, 51]},
     "mutate": lambda ev: ev["scan"].__setitem__(len(ev["scan"]) - 5, ev["scan"][len(ev["scan"]) - 5] + 1)},
    # hook H1: a literal the model sends down the exact path reported as Eisel-Lemire -> conformance note
    {"label": "float_path", "trace": ("TraceFloats.tla", "TraceFloats.cfg"), "prop": "NOTE",
     "case": {"op": "float", "in": [49, 46, 53]},
     "mutate": lambda ev: _set(ev, "tier", None, 2) if False else ev.__setitem__("tier", 2)},
]


def case_of(bad):
    e = vlib.event_at(bad["file"], bad["l"])
    if "op" not in e and "ev" in e:
        # an internal stack event: the case is the history it belongs to (the nearest reset event before it)
        last = None
        with open(bad["file"]) as fh:
            for i, line in enumerate(fh, 1):
                if i > bad["l"]:
                    break
                if line.startswith('{"ev":9'):
                    last = line
        return json.loads(last)
    if e["op"] == "sweep":
        row = e["rows"][bad["row"] - 1]
        return {"op": "doc", "in": e["pre"] + [row[0]] + e["sufs"][row[1]], "o": row[2:]}
    return e


RESULT_KEYS = {"o", "res", "unch", "r", "n", "fresh"}


def sig_of(case, clause):
    key = json.dumps({k: v for k, v in sorted(case.items()) if k not in RESULT_KEYS})
    return "%s:%s:%s" % (case.get("op"), clause, hashlib.sha1(key.encode()).hexdigest()[:12])


def reproduce(trace, case, pid, clause, vh):
    """Re-run the case on the real code and re-validate it; True if it fails again."""
    d = vlib.workdir()
    path = os.path.join(d, "replay_in_%d.json" % (int(time.time() * 1e6) % 10**9))
    json.dump(case, open(path, "w"))
    p = subprocess.run(["timeout", "300", vh, "replay", path], capture_output=True, text=True)
    if p.returncode == 4:
        return True, None  # hang reproduced
    if p.returncode != 0:
        raise Infra("replay failed: " + p.stderr[-2000:])
    ev_path = path + ".ndjson"
    open(ev_path, "w").write(p.stdout)
    tm, cfg = trace
    bads, consumed, _ = vlib.validate(tm, cfg, [ev_path], par=1)
    fresh = json.loads(p.stdout.splitlines()[0])
    # the case is reproduced when the re-executed case violates the same property again (measurements near a
    # threshold may trip a different clause of the property on the second run)
    return any(b["prop"] == pid for b in bads) or \
        any(b["clause"] == "panic" and clause == "panic" for b in bads), fresh


def _sample(s):
    try:
        return json.loads(s)
    except Exception:
        return s


def run_check(pid, tier, seed):
    t0 = time.time()
    spec = CHECKS[pid]
    fam = spec["family"]
    F = FAMILIES[fam]
    outdir = os.path.join(vlib.VERIF, "out", pid)
    os.makedirs(outdir, exist_ok=True)
    for f in os.listdir(outdir):
        os.remove(os.path.join(outdir, f))
    res = F["run"](pid, tier, seed)
    vh = vlib.build_harness()
    known = [k for k in vlib.load_known() if k["prop"] == pid]
    violations, known_hits, seen_sigs, unreproduced = [], [], set(), []
    if "hang" in res:
        path = os.path.join(outdir, "viol-hang.json")
        rec = {"property": pid, "clause": "no_termination", "case": res["hang"]}
        if res.get("crash_event"):
            rec.update(clause="process_died", event=res["crash_event"])
        json.dump(rec, open(path, "w"))
        violations.append(path)
        print("VIOLATION property=%s replay=%s" % (pid, path))
    for clause, path in res.get("direct_violations", []):
        violations.append(path)
        print("VIOLATION property=%s replay=%s" % (pid, path))
    infra = [b for b in res.get("bads", []) if b["prop"] == "INFRA"]
    if infra:
        # the specification disagrees with a choice the harness made while preparing an input: no verdict
        raise Infra("infrastructure clause failed: %s %s" % (infra[0]["clause"], json.dumps(case_of(infra[0]))[:400]))
    conf_notes = [b for b in res.get("bads", []) if b["prop"] == "NOTE"]
    for b in conf_notes[:5]:
        print("CONFORMANCE-NOTE property=%s %s %s" % (pid, b["clause"], json.dumps(case_of(b))[:300]))
    mine = [b for b in res.get("bads", []) if b["prop"] not in ("NOTE", "INFRA") and (b["prop"] == pid or b["clause"] == "panic" or b.get("conc"))]
    # reproduce at most a bounded number of distinct failing cases
    for b in mine:
        case = case_of(b)
        sig = sig_of(case, b["clause"])
        if sig in seen_sigs:
            continue
        seen_sigs.add(sig)
        if any(sig.startswith(k["sig"]) for k in known_hits):
            continue  # another instance of a known finding that was already reproduced in this run
        if len(violations) >= 5:
            break
        ok, fresh = reproduce(b["trace"], case, b["prop"], b["clause"], vh)
        if not ok and b.get("conc"):
            # wrong only under concurrency: the same driver and seed must show a wrong result again
            vhr = vlib.build_harness(race=True, name="vh_race")
            for attempt in range(3):
                g2, _ = conc_once(vhr, tier, seed)
                tm, cfg = b["trace"]
                fam2 = [k for k, v in CONC_TRACES.items() if v == b["trace"]][0]
                files2 = [f for f in g2["files"] if os.path.basename(f).startswith("conc_%s_" % fam2)]
                bads2, _, _ = vlib.validate(tm, cfg, files2)
                if any(x["prop"] == b["prop"] and x["clause"] == b["clause"] for x in bads2):
                    ok = True
                    break
        if not ok:
            # history- or schedule-dependent cases may not re-occur in a fresh process; they are never reported as
            # violations.  If nothing at all reproduces the run is an infrastructure error (exit 2).
            unreproduced.append("prop %s clause %s: %s" % (b["prop"], b["clause"], json.dumps(case)[:300]))
            if len(unreproduced) > 8:
                break
            continue
        k = [k for k in known if sig.startswith(k["sig"]) or k["sig"] == sig]
        if k:
            known_hits.append(k[0])
            print("KNOWN-FINDING: property=%s %s" % (pid, k[0]["text"]))
            continue
        path = os.path.join(outdir, "viol-%d.json" % (len(violations) + 1))
        json.dump({"property": pid, "clause": b["clause"], "clause_property": b["prop"], "signature": sig,
                   "trace": list(b["trace"]), "event": case, "fresh_event": fresh}, open(path, "w"))
        violations.append(path)
        print("VIOLATION property=%s replay=%s" % (pid, path))
    if unreproduced and not violations and not known_hits:
        raise Infra("BAD events did not reproduce on replay: " + unreproduced[0])
    for u in unreproduced:
        log("not reproduced on replay (not reported): " + u[:200])
    # evidence
    stats = {"evaluations": 0, "distinct_nontrivial": 0, "events": 0, "samples": []}
    for g in res["gens"]:
        s = g.get("stats")
        if s:
            stats["evaluations"] += s["evaluations"]
            stats["distinct_nontrivial"] += s["distinct_nontrivial"]
            stats["events"] += s["events"]
            stats["samples"] += (s.get("samples") or [])[:3]
    r1 = res.get("r1", [])
    cov = {
        "states": sum(c.get("distinct", 0) for c in r1),
        "transitions": sum(c.get("generated", 0) for c in r1),
        "traces_validated_against_impl": res.get("consumed", 0),
        "evaluations": stats["evaluations"],
        "distinct_nontrivial": stats["distinct_nontrivial"],
        "rule": spec["rule"],
        "samples": [_sample(s) for s in stats["samples"][:6]] or ["(none)"],
        "model_checks": r1,
        "events": stats["events"],
        "bad_events_all_properties": len([b for b in res.get("bads", []) if b["prop"] != "NOTE"]),
        "conformance_notes": len(conf_notes),
        "bad_events_not_reproduced_on_replay": len(unreproduced),
        "known_findings_matched": [k["sig"] for k in known_hits],
        "exhaustive": False,
    }
    for k, v in res.items():
        if k.startswith("cov_"):
            cov[k[4:]] = v
    level = spec["level"]
    vlib.write_evidence(pid, tier, seed, level, cov, time.time() - t0, len(violations),
                        ASSUME_COMMON + spec.get("assumptions", []))
    log("%s %s: %d evaluations, %d events validated, %d violations, %d known findings, %.1fs"
        % (pid, tier, stats["evaluations"], res.get("consumed", 0), len(violations), len(known_hits), time.time() - t0))
    return 1 if violations else 0


def replay(path):
    ev = json.load(open(path))
    pid = ev.get("property")
    if "trace" not in ev and ev.get("clause") == "process_died" and "event" in ev:
        # the real code did not return: re-run the recorded case in a process of its own
        vh = vlib.build_harness()
        d = vlib.workdir()
        cpath = os.path.join(d, "replay_crash.json")
        json.dump(ev["event"], open(cpath, "w"))
        p = subprocess.run(["timeout", "600", vh, "replay", cpath], capture_output=True, text=True)
        died = p.returncode != 0 and ("fatal error" in p.stderr or p.returncode == 4)
        print(json.dumps({"reproduced": died, "returncode": p.returncode, "stderr": p.stderr[:300]}))
        if died:
            print("VIOLATION property=%s replay=%s" % (pid, path))
            return 1
        if p.returncode != 0:
            print("replay failed: " + p.stderr[-500:])
            return 2
        return 0
    if "trace" not in ev:
        print("replay file names no trace specification")
        return 2
    vh = vlib.build_harness()
    ok, fresh = reproduce(tuple(ev["trace"]), ev["event"], ev.get("clause_property", pid), ev["clause"], vh)
    print(json.dumps({"reproduced": ok, "fresh_event": fresh})[:4000])
    if ok:
        print("VIOLATION property=%s replay=%s" % (pid, path))
        return 1
    return 0


def sany():
    bad = 0
    for f in sorted(os.listdir(vlib.SPEC)):
        if f.endswith(".tla"):
            p = subprocess.run(["timeout", "120", "tla-sany", f], cwd=vlib.spec_dir(), capture_output=True, text=True)
            if p.returncode != 0 or "Semantic errors" in p.stdout or "Parse Error" in p.stdout or "Fatal" in p.stdout:
                print("SANY FAILED:", f)
                print(p.stdout[-1500:])
                bad += 1
    print("sany: %d modules failed" % bad)
    return 2 if bad else 0


def selftest():
    import selftest as st
    return st.main()
