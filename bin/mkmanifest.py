#!/usr/bin/env python3
"""Regenerates /verif/MANIFEST.json from the table of checks in families.py."""
import json
import os
import sys

sys.path.insert(0, os.path.dirname(os.path.abspath(__file__)))
import families  # noqa: E402

VERIF = os.path.dirname(os.path.dirname(os.path.abspath(__file__)))
props = [json.loads(l) for l in open(os.path.join(VERIF, "properties.jsonl"))]
hooks = []
hp = os.path.join(VERIF, "hooks.txt")
if os.path.exists(hp):
    hooks = [l.split()[0] for l in open(hp) if l.strip() and not l.startswith("#")]

checks = []
for p in props:
    pid = p["id"]
    c = families.CHECKS.get(pid)
    if not c or c.get("disabled"):
        continue
    checks.append({
        "property_id": pid,
        "quick_cmd": "bin/check %s quick" % pid,
        "thorough_cmd": "bin/check %s thorough" % pid,
        "evidence_file": "/verif/evidence/%s.json" % pid,
        "replay_cmd_template": "bin/check replay {path}",
        "engine": "tlc-trace-validation",
        "level_claimed": {"category": c["level"], "text": c["level_text"], "design_ref": c.get("design_ref", "DESIGN.md §6 " + pid)},
        "level_note": c["level_note"],
        "technique": c["technique"],
    })
na = []
for p in props:
    if p["id"] not in [c["property_id"] for c in checks]:
        na.append({"property_id": p["id"], "reason": families.NOT_APPLICABLE.get(p["id"], "check not built yet (work in progress; see DESIGN.md §14)")})

m = {
    "version": 1,
    "setup_cmd": "bin/setup",
    "hooks": {
        "guard": "verif",
        "enable": "go build -tags verif (the harness module /verif/harness replaces github.com/willabides/rjson with /repo and is rebuilt from the working tree by every check)",
        "baseline_off_cmd": "cd /repo && GOFLAGS=-mod=mod GOPROXY=off GOSUMDB=off go test -json -vet=off -count=1 -timeout 25m ./...",
        "source_commits": hooks,
        "add_only": True,
    },
    "engines": [
        {"name": "tlc-trace-validation", "path": "/verif/bin/check",
         "serves_properties": [c["property_id"] for c in checks],
         "kind_free_text": "explicit TLA+ specification (/verif/spec); TLC model-checks bounded configurations (R1), emits "
                           "reachable states and behaviours that are replayed into the real code (R2), and validates every "
                           "recorded execution of the real code against the specification (R3); all verdicts are computed "
                           "by TLC from the TLA+ definitions"}],
    "checks": checks,
    "notes": "See DESIGN.md. Known genuine defects are listed in known-findings.txt (fixed: entries suppress nothing).",
    "not_applicable": na,
}
json.dump(m, open(os.path.join(VERIF, "MANIFEST.json"), "w"), indent=1)
print("MANIFEST.json: %d checks, %d not_applicable" % (len(checks), len(na)))
