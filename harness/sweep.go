package main

// Sweep inputs derived from the reachable states of the TLA+ grammar machine.
//
//   state bases  (witness(s), s)            one per reachable state
//   edge bases   (witness(s)+b, s')         one per viable transition s -b-> s' of the state graph:
//                                           the target is entered through *that* transition, which is
//                                           what exposes a transition whose target state is wrong
//
// From a base (pre, s) and a next byte b the inputs are
//   pre+b                                   stop
//   pre+b+completion(s')                    when the specification accepts b in s
//   pre+b+completion(s), pre+b+t+completion(s)   when it rejects b: had an implementation wrongly
//                                           accepted b it would now be in some token state; t ranges
//                                           over token completions ("5", "0", "\"", ...)

import (
	"math/rand"
)

type sweepBase struct {
	pre  []byte
	st   *specState
	edge bool
}

func (ss *specStates) index() map[string]*specState {
	idx := make(map[string]*specState, len(ss.States))
	for i := range ss.States {
		idx[ss.States[i].Key] = &ss.States[i]
	}
	return idx
}

func classMembers(ss *specStates) map[int][]int {
	m := map[int][]int{}
	for b := 0; b < 256; b++ {
		m[ss.Classes[b]] = append(m[ss.Classes[b]], b)
	}
	return m
}

// tokenCompletions: the distinct token completions of all states (completion minus closers).
func tokenCompletions(ss *specStates) [][]byte {
	seen := map[string]bool{}
	var out [][]byte
	add := func(b []byte) {
		if len(b) > 0 && !seen[string(b)] {
			seen[string(b)] = true
			out = append(out, b)
		}
	}
	add([]byte("5"))
	add([]byte("0"))
	add([]byte(`"`))
	add([]byte("00"))
	for i := range ss.States {
		s := &ss.States[i]
		if s.Out == "run" && len(s.Comp) >= len(s.Close) {
			add(toBytes(s.Comp[:len(s.Comp)-len(s.Close)]))
		}
	}
	return out
}

// sweepBases lists state bases and, when edges is set, edge bases.
// pickAll: an edge base for every member byte of the transition's class; otherwise first (+ one random) member.
func sweepBases(ss *specStates, edges, pickAll bool, rng *rand.Rand) []sweepBase {
	var out []sweepBase
	for i := range ss.States {
		s := &ss.States[i]
		if s.Out == "err" {
			continue
		}
		out = append(out, sweepBase{pre: toBytes(s.Inp), st: s})
	}
	if !edges {
		return out
	}
	idx := ss.index()
	mem := classMembers(ss)
	for i := range ss.States {
		s := &ss.States[i]
		if s.Out != "run" {
			continue
		}
		pre := toBytes(s.Inp)
		seenTarget := map[string]int{}
		for _, su := range s.Succ {
			if su.Out != "run" {
				continue
			}
			t := idx[su.Key]
			if t == nil {
				continue
			}
			// several byte classes may lead to the same target (all plain bytes inside a string do): two of them
			// stand for that transition, except in the thorough tier
			seenTarget[su.Key]++
			if !pickAll && seenTarget[su.Key] > 2 {
				continue
			}
			ms := mem[su.B]
			bs := []int{ms[0]}
			if pickAll {
				bs = ms
			} else if len(ms) > 1 {
				bs = append(bs, ms[1+rng.Intn(len(ms)-1)])
			}
			for _, b := range bs {
				out = append(out, sweepBase{pre: append(append([]byte{}, pre...), byte(b)), st: t, edge: true})
			}
		}
	}
	return out
}

type sweepOpts struct {
	allBytes    bool     // every byte value (else: first, last and a random member of every class)
	stop        bool     // emit pre+b
	rejectConts [][]byte // token completions tried after a rejected byte
	rejectAll   bool     // reject continuations for every picked byte (else only for the class representative)
	viableOnly  bool     // only bytes the specification accepts in the base state
	onePerClass bool     // one byte per class instead of first, last and a random member
}

// forSweepInputs calls fn for every input derived from base.  viable tells whether the
// specification accepts the byte in the base state.
func forSweepInputs(ss *specStates, mem map[int][]int, base sweepBase, o sweepOpts, rng *rand.Rand, fn func(in []byte, viable bool)) {
	s := base.st
	if s.Out != "run" {
		// a complete value: anything may follow
		for b := 0; b < 256; b++ {
			if o.allBytes || b == mem[ss.Classes[b]][0] {
				fn(append(append([]byte{}, base.pre...), byte(b)), true)
			}
		}
		return
	}
	succ := map[int]*succT{}
	for i := range s.Succ {
		succ[s.Succ[i].B] = &s.Succ[i]
	}
	comp := toBytes(s.Comp)
	for cl, ms := range mem {
		bs := ms
		if !o.allBytes {
			bs = []int{ms[0]}
			if o.onePerClass {
				bs = []int{ms[rng.Intn(len(ms))]}
			} else {
				if len(ms) > 1 {
					bs = append(bs, ms[len(ms)-1])
				}
				if len(ms) > 2 {
					bs = append(bs, ms[1+rng.Intn(len(ms)-2)])
				}
			}
		}
		su := succ[cl]
		viable := su != nil && (su.Out == "run" || su.Out == "done")
		if o.viableOnly && !viable {
			continue
		}
		for bi, b := range bs {
			in := append(append([]byte{}, base.pre...), byte(b))
			if o.stop {
				fn(in, viable)
			}
			if viable {
				if len(su.Comp) > 0 || !o.stop {
					fn(append(append([]byte{}, in...), toBytes(su.Comp)...), true)
				}
				continue
			}
			if len(comp) > 0 || !o.stop {
				fn(append(append([]byte{}, in...), comp...), false)
			}
			if o.rejectAll || bi == 0 {
				for _, t := range o.rejectConts {
					fn(append(append(append([]byte{}, in...), t...), comp...), false)
				}
			}
		}
	}
}
