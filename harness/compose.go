package main

// Family "compose": decoders written only against the public API in the
// documented style (C08).  A program is a stream of per-member choices.

import (
	"bytes"
	"errors"
	"fmt"
	"math/rand"

	"github.com/willabides/rjson"
)

// per-member choices
const (
	chTyped    = 0 // peek the token type, read with the typed reader, recurse through handlers
	chSkip     = 1 // SkipValue
	chSkipFast = 2 // SkipValueFast
	chZero     = 3 // return 0: the library skips (and validates) the value itself
	chReader   = 4 // ValueReader.ReadValue
	chDecode   = 5 // typed, but scalars through the Decode functions
)

type skipped struct{}

type prog struct {
	next     func() int // choice source
	choices  []int
	buf      *rjson.Buffer
	usedFast bool
	skippedN int
}

func (pg *prog) choose() int {
	c := pg.next()
	pg.choices = append(pg.choices, c)
	return c
}

var errCompose = errors.New("compose: unexpected token")

func (pg *prog) typed(data []byte, useDecode bool) (interface{}, int, error) {
	tt, p, err := rjson.NextTokenType(data)
	if err != nil {
		return nil, p, err
	}
	p--
	data = data[p:]
	switch tt {
	case rjson.NullType:
		pp, err := rjson.ReadNull(data)
		return nil, p + pp, err
	case rjson.StringType:
		if useDecode {
			var s string
			pp, err := rjson.DecodeString(data, &s, nil)
			return s, p + pp, err
		}
		s, pp, err := rjson.ReadString(data, nil)
		return s, p + pp, err
	case rjson.NumberType:
		if useDecode {
			var f float64
			pp, err := rjson.DecodeFloat64(data, &f)
			return f, p + pp, err
		}
		f, pp, err := rjson.ReadFloat64(data)
		return f, p + pp, err
	case rjson.TrueType, rjson.FalseType:
		if useDecode {
			var b bool
			pp, err := rjson.DecodeBool(data, &b)
			return b, p + pp, err
		}
		b, pp, err := rjson.ReadBool(data)
		return b, p + pp, err
	case rjson.ObjectStartType:
		m := map[string]interface{}{}
		pp, err := rjson.HandleObjectValues(data, rjson.ObjectValueHandlerFunc(func(key, d []byte) (int, error) {
			k, _, kerr := rjson.UnescapeStringContent(key, nil)
			if kerr != nil {
				return 0, kerr
			}
			v, q, err := pg.member(d)
			if err != nil {
				return q, err
			}
			m[string(k)] = v
			return q, nil
		}), pg.buf)
		return m, p + pp, err
	case rjson.ArrayStartType:
		a := []interface{}{}
		pp, err := rjson.HandleArrayValues(data, rjson.ArrayValueHandlerFunc(func(d []byte) (int, error) {
			v, q, err := pg.member(d)
			if err != nil {
				return q, err
			}
			a = append(a, v)
			return q, nil
		}), pg.buf)
		return a, p + pp, err
	}
	return nil, p, errCompose
}

func (pg *prog) member(data []byte) (interface{}, int, error) {
	switch pg.choose() {
	case chSkip:
		p, err := rjson.SkipValue(data, pg.buf)
		pg.skippedN++
		return skipped{}, p, err
	case chSkipFast:
		pg.usedFast = true
		pg.skippedN++
		p, err := rjson.SkipValueFast(data, pg.buf)
		return skipped{}, p, err
	case chZero:
		pg.skippedN++
		return skipped{}, 0, nil
	case chReader:
		var r rjson.ValueReader
		return r.ReadValue(data)
	case chDecode:
		return pg.typed(data, true)
	default:
		return pg.typed(data, false)
	}
}

func hasSkipped(v interface{}) bool {
	switch t := v.(type) {
	case skipped:
		return true
	case []interface{}:
		for _, x := range t {
			if hasSkipped(x) {
				return true
			}
		}
	case map[string]interface{}:
		for _, x := range t {
			if hasSkipped(x) {
				return true
			}
		}
	}
	return false
}

// program kinds
var progKinds = []string{"typed", "skip", "fast", "zero", "reader", "decode", "mixed", "mixed-validating"}

func mkProg(kind int, rng *rand.Rand, shareBuf bool) *prog {
	pg := &prog{}
	if shareBuf {
		pg.buf = &rjson.Buffer{}
	}
	switch progKinds[kind] {
	case "typed":
		pg.next = func() int { return chTyped }
	case "skip":
		pg.next = func() int { return chSkip }
	case "fast":
		pg.next = func() int { return chSkipFast }
	case "zero":
		pg.next = func() int { return chZero }
	case "reader":
		pg.next = func() int { return chReader }
	case "decode":
		pg.next = func() int { return chDecode }
	case "mixed":
		pg.next = func() int { return rng.Intn(6) }
	default:
		v := []int{chTyped, chSkip, chZero, chReader, chDecode, chTyped}
		pg.next = func() int { return v[rng.Intn(len(v))] }
	}
	return pg
}

func runCompose(sw *shardWriter, j *jb, data []byte, kind int, seed int64, shareBuf bool, st *genStats) {
	runComposeHist(sw, j, data, nil, nil, kind, seed, shareBuf, st)
}

// runComposeHist: as runCompose; with pre != nil the program's (long-lived) Buffer has first been through the same kind
// of decoder on the document pre. segs, when given, is the run-length form of data (documents of the depth family).
func runComposeHist(sw *shardWriter, j *jb, data []byte, segs []seg, pre []seg, kind int, seed int64, shareBuf bool, st *genStats) {
	data = relayout(data)
	orig := append([]byte{}, data...)
	rng := rand.New(rand.NewSource(seed))
	// kinds 100, 200, 400: the *top-level* value itself (leading whitespace included, as in a stream of records) is
	// handed to SkipValue / SkipValueFast / ValueReader.ReadValue, the way the members are handed to them in a handler
	top := kind / 100
	pg := mkProg(kind%100, rng, shareBuf)
	if top > 0 {
		inner := pg.next
		first := true
		pg.next = func() int {
			if first {
				first = false
				return top
			}
			return inner()
		}
	}
	panics := 0
	if pre != nil {
		first := mkProg(kind%100, rand.New(rand.NewSource(seed+1)), shareBuf)
		first.buf = pg.buf
		guardPanic(&panics, func() { first.typed(expandSegs(pre), false) })
	}
	var v interface{}
	var p int
	var err error
	guardPanic(&panics, func() {
		if top > 0 {
			v, p, err = pg.member(data)
		} else {
			v, p, err = pg.typed(data, false)
		}
	})
	ok := err == nil && panics == 0
	full := ok && !hasSkipped(v)
	allValidatingReads := true // every member read by a validating *reader* (not skipped, not fast)
	validating := !pg.usedFast
	for _, c := range pg.choices {
		if c == chSkip || c == chSkipFast || c == chZero {
			allValidatingReads = false
		}
	}
	j.reset()
	j.raw(`{"op":"compose",`)
	if segs != nil {
		j.key("segs")
		j.segs(segs)
	} else {
		j.key("in")
		j.bytes(data)
	}
	if pre != nil {
		j.raw(`,"pre":`)
		j.segs(pre)
	}
	j.raw(`,"kind":`)
	j.int(kind)
	j.raw(`,"seed":`)
	j.int(int(seed))
	j.raw(`,"sharebuf":`)
	j.b01(shareBuf)
	j.raw(`,"choices":`)
	j.ints(pg.choices)
	j.raw(`,"res":`)
	if p > 1<<30 || p < -(1<<30) {
		p = -2
	}
	j.ints([]int{b2i(ok), p})
	j.raw(`,"validating":`)
	j.b01(validating)
	j.raw(`,"readsall":`)
	j.b01(allValidatingReads)
	j.raw(`,"full":`)
	j.b01(full)
	j.raw(`,"tree":`)
	if full && segs == nil && treeDepth(v) <= maxLoggedDepth {
		j.tree(v)
	} else {
		j.raw(`["partial"]`)
	}
	j.raw(`,"panics":`)
	j.int(panics)
	j.raw(`,"unch":`)
	j.b01(bytes.Equal(orig, data))
	j.raw(`}`)
	if sw != nil {
		sw.write(j.b)
	}
	st.noteKey(fmt.Sprint(kind, seed, shareBuf)+string(data), len(pg.choices) > 0)
}

func genCompose(c *genCtx) error {
	var j jb
	all := func(d []byte) {
		setCurrent(fmt.Sprintf("compose %q", trunc(d)))
		for k := range progKinds {
			if c.thorough() || c.rng.Intn(2) == 0 {
				runCompose(c.sw, &j, d, k, int64(c.rng.Intn(1<<30)), c.rng.Intn(2) == 0, c.st)
			}
		}
		runCompose(c.sw, &j, d, 6, int64(c.rng.Intn(1<<30)), true, c.st)
		runCompose(c.sw, &j, d, 7, int64(c.rng.Intn(1<<30)), true, c.st)
		// the top-level value through the skip functions and the generic reader, with whitespace in front of it
		for _, ws := range []string{"", " ", "\n\t ", "        "} {
			if ws != "" && !c.thorough() && c.rng.Intn(2) == 0 {
				continue
			}
			dd := append([]byte(ws), d...)
			for _, k := range []int{100, 200, 400} {
				runCompose(c.sw, &j, dd, k, int64(c.rng.Intn(1<<30)), c.rng.Intn(2) == 0, c.st)
			}
		}
	}
	if c.want("shapes") {
		for _, d := range treeShapes(c) {
			all(d)
		}
		for _, s := range []string{`"s"`, `"a\nb"`, `"\u00e9"`, `""`, "12", "-0.5e3", "true", "false", "null", "[]", "{}", `["s"]`, `{"a":"s"}`, `"unterminated`, "tru", "-"} {
			all([]byte(s))
		}
	}
	// depth: decoders that recurse through the handlers on documents at and just below the nesting limit, with a
	// Buffer of their own, with none, and with a long-lived Buffer that the same decoder has already taken through a
	// document beyond the limit / an unclosed one / one at the limit
	if c.want("depth") {
		setCurrent("compose depth")
		nest := func(open, bottom, close string, n int) []seg {
			return []seg{{[]byte(open), n}, {[]byte(bottom), 1}, {[]byte(close), n}}
		}
		pres := [][]seg{nil, nest("[", "1", "]", 10001), nest(`{"a":`, "1", "}", 10001), nest(`[{"a":`, "1", "}]", 5025),
			nest("[", "", "", 10005), nest("[", "1", "]", 10000)}
		docs := [][]seg{nest("[", "1", "]", 10000), nest(`{"a":`, `"s"`, "}", 10000), nest(`[{"a":`, "null", "}]", 5000), nest("[", "[]", "]", 9999)}
		for _, pre := range pres {
			for _, d := range docs {
				for _, k := range []int{0, 5, 7, 3, 1} {
					for _, share := range []bool{true, false} {
						if pre != nil && !share {
							continue
						}
						runComposeHist(c.sw, &j, expandSegs(d), d, pre, k, int64(c.rng.Intn(1<<30)), share, c.st)
					}
				}
			}
		}
	}
	if c.want("sweep") && c.statesPath != "" {
		ss, err := loadStates(c.statesPath)
		if err != nil {
			return err
		}
		mem := classMembers(ss)
		conts := [][]byte{[]byte("5")}
		if c.thorough() {
			conts = [][]byte{[]byte("5"), []byte("0"), []byte(`"`)}
		}
		parallelBases(sweepBases(ss, true, false, c.rng), c.st, c.rng, func(base sweepBase, rng *rand.Rand, st *genStats, w *sweepWorker) {
			if base.st.Out != "run" {
				return
			}
			o := sweepOpts{allBytes: false, stop: false, rejectConts: conts, onePerClass: !c.thorough()}
			forSweepInputs(ss, mem, base, o, rng, func(in []byte, viable bool) {
				if !c.thorough() && !viable && base.edge && rng.Intn(2) == 0 {
					return
				}
				k := rng.Intn(len(progKinds))
				runCompose(c.sw, &w.j, in, k, int64(rng.Intn(1<<30)), rng.Intn(2) == 0, st)
				runCompose(c.sw, &w.j, in, 7, int64(rng.Intn(1<<30)), true, st)
				if c.thorough() && viable && !base.edge {
					for k := range progKinds {
						runCompose(c.sw, &w.j, in, k, int64(rng.Intn(1<<30)), rng.Intn(2) == 0, st)
					}
				}
			})
		})
	}
	var docs [][]byte
	if c.want("walks") {
		docs = append(docs, loadWalks(c.walksPath)...)
	}
	if c.want("corpus") {
		docs = append(docs, corpusFiles(c.tier, c.rng)...)
	}
	if c.want("random") {
		n := 1500
		if c.thorough() {
			n = 30000
		}
		for i := 0; i < n; i++ {
			g := &docGen{rng: c.rng, maxDepth: 1 + c.rng.Intn(6), maxWidth: 1 + c.rng.Intn(6),
				wsProb: []float64{0, 0.2, 0.5}[c.rng.Intn(3)], maxStr: 1 + c.rng.Intn(10), hiBytes: c.rng.Intn(2) == 0}
			docs = append(docs, g.doc())
		}
	}
	for _, d := range docs {
		all(d)
		m := mutate(c.rng, d)
		all(m)
	}
	return nil
}

func init() {
	families["compose"] = genCompose
	replayers["compose"] = func(ev map[string]interface{}) ([]byte, error) {
		var j jb
		toSegs := func(x interface{}) []seg {
			var out []seg
			if s, ok := x.([]interface{}); ok {
				for _, y := range s {
					p := y.([]interface{})
					out = append(out, seg{anyBytes(p[0]), int(p[1].(float64))})
				}
			}
			return out
		}
		runComposeHist(nil, &j, evInput(ev), toSegs(ev["segs"]), toSegs(ev["pre"]), int(ev["kind"].(float64)), int64(ev["seed"].(float64)),
			ev["sharebuf"].(float64) == 1, newStats())
		return append([]byte{}, j.b...), nil
	}
}
