package main

// Family "hist": call histories on one Buffer (C14) and on one ValueReader
// (C15).  Every step is executed twice - on the shared object and on a fresh /
// absent one - and both outcomes are logged.

import (
	"bytes"
	"fmt"
	"math/rand"
	"runtime"

	"github.com/willabides/rjson"
)

// ------------------------------------------------------------------ C14
type bufStep struct {
	fn   int // 1 Valid 2 SkipValue 3 SkipValueFast 4 HandleArrayValues 5 HandleObjectValues
	mode int // handler behaviour for 4, 5
	data []byte
	segs []seg
	k    int // parameter of the mode (failing call index)
}

// handler modes
const (
	hmZero     = 0 // return 0
	hmSkipSame = 1 // exact offset found with SkipValue on the enclosing call's buffer
	hmErrAtK   = 2 // abort with a sentinel at call k
	hmNested   = 3 // recurse into containers with the same buffer (typed-decoder pattern)
	hmValidIn  = 4 // call Valid on the rest with the same buffer, then return 0
	hmFastSame = 5 // exact offset found with SkipValueFast on the same buffer
	hmOtherDoc = 6 // run a deep unrelated document through the same buffer, then SkipValue
)

type bufHandler struct {
	buf   *rjson.Buffer
	mode  int
	k     int
	log   []int // flattened call log: off, pp, err, inner ok, inner p
	doc   []byte
	depth int
}

var otherDeep = append(bytes.Repeat([]byte(`[{"a":`), 40), append([]byte("1"), bytes.Repeat([]byte("}]"), 40)...)...)

func (h *bufHandler) handle(data []byte) (int, error) {
	off := cap(h.doc) - cap(data)
	n := len(h.log) / 5
	pp, eid, iok, ip := 0, 0, 0, 0
	switch h.mode {
	case hmZero:
	case hmSkipSame:
		p, err := rjson.SkipValue(data, h.buf)
		iok, ip = b2i(err == nil), p
		if err != nil {
			eid = ownReadFailed
		} else {
			pp = p
		}
	case hmErrAtK:
		if n == h.k {
			eid = 7
		} else if n%2 == 0 {
			p, err := rjson.SkipValue(data, h.buf)
			iok, ip = b2i(err == nil), p
			if err == nil {
				pp = p
			}
		}
	case hmNested:
		tt, _, err := rjson.NextTokenType(data)
		var p int
		switch {
		case err != nil:
			eid = ownReadFailed
		case tt == rjson.ArrayStartType && h.depth < 50:
			h.depth++
			p, err = rjson.HandleArrayValues(data, rjson.ArrayValueHandlerFunc(h.handle), h.buf)
			h.depth--
		case tt == rjson.ObjectStartType && h.depth < 50:
			h.depth++
			p, err = rjson.HandleObjectValues(data, rjson.ObjectValueHandlerFunc(func(_, d []byte) (int, error) { return h.handle(d) }), h.buf)
			h.depth--
		default:
			p, err = rjson.SkipValue(data, h.buf)
		}
		iok, ip = b2i(err == nil), p
		if err != nil {
			if eid == 0 {
				eid = ownReadFailed
			}
		} else {
			pp = p
		}
	case hmValidIn:
		iok = b2i(rjson.Valid(data, h.buf))
	case hmFastSame:
		p, err := rjson.SkipValueFast(data, h.buf)
		iok, ip = b2i(err == nil), p
		if err != nil {
			eid = ownReadFailed
		} else {
			pp = p
		}
	case hmOtherDoc:
		rjson.Valid(otherDeep, h.buf)
		rjson.SkipValue([]byte(`[[[[{"a":[1,`), h.buf)
		p, err := rjson.SkipValue(data, h.buf)
		iok, ip = b2i(err == nil), p
		if err == nil {
			pp = p
		}
	}
	h.log = append(h.log, off, pp, eid, iok, ip)
	if eid != 0 {
		return pp, sentinels[eid]
	}
	return pp, nil
}

func runBufStep(s bufStep, buf *rjson.Buffer, arena []byte) (res []int, log []int, panicked int) {
	doc := make([]byte, len(s.data))
	if arena != nil {
		doc = arena[:len(s.data)] // the caller's read buffer, refilled for every call of the history
	}
	copy(doc, s.data)
	var ok bool
	var p int
	var err error
	h := &bufHandler{buf: buf, mode: s.mode, k: s.k, doc: doc}
	func() {
		defer func() {
			if r := recover(); r != nil {
				panicked = 1
			}
		}()
		switch s.fn {
		case 1:
			ok = rjson.Valid(doc, buf)
			if !ok {
				err = errCompose
			}
		case 2:
			p, err = rjson.SkipValue(doc, buf)
		case 3:
			p, err = rjson.SkipValueFast(doc, buf)
		case 4:
			p, err = rjson.HandleArrayValues(doc, rjson.ArrayValueHandlerFunc(h.handle), buf)
		case 5:
			p, err = rjson.HandleObjectValues(doc, rjson.ObjectValueHandlerFunc(func(_, d []byte) (int, error) { return h.handle(d) }), buf)
		}
	}()
	if err != nil || panicked == 1 {
		// the offset that comes with an error is not part of the outcome the property speaks about;
		// it is logged all the same and compared (nil vs shared must agree on it too)
	}
	return []int{b2i(err == nil && panicked == 0), p, errID(err), panicked}, h.log, panicked
}

func histDocs(c *genCtx) []bufStep {
	var out []bufStep
	add := func(s string) { out = append(out, bufStep{data: []byte(s)}) }
	for _, s := range []string{`1`, `"s"`, `null`, `[]`, `{}`, `[1,2,3]`, `{"a":1,"b":[1,2,{"c":null}]}`, `[[1],[2,[3,[4,[5]]]],{"a":{"b":{"c":[]}}}]`,
		`[1,2`, `[1,,2]`, `{"a":1,`, `{"a":[1,2,{"b":`, `[[[[[[1,`, `[{"a":[{"b":[tru`, `]`, ``, `[1]]`, `{"a":"x\ny"}`, `["\ud800",1]`,
		`[[[[[[[[[[[[[[[[[[[[1]]]]]]]]]]]]]]]]]]]]`, `{"a":{"a":{"a":{"a":{"a":{"a":{"a":{"a":1}}}}}}}}`, ` [ {"k" : [ 1 , {"z":[]} ] } , "s" ] `} {
		add(s)
	}
	mk := func(open, close, bottom string, n int) bufStep {
		segs := []seg{{[]byte(open), n}, {[]byte(bottom), 1}, {[]byte(close), n}}
		return bufStep{data: expandSegs(segs), segs: segs}
	}
	out = append(out, mk("[", "]", "1", 60), mk("[", "]", "", 300), mk(`{"a":`, "}", "1", 200), mk("[", "", "", 120), mk(`[{"a":`, "", "", 90),
		mk("[", "]", "", 10000), mk("[", "]", "", 10001), mk(`{"a":`, "}", "1", 10001), mk("[", "", "", 10005))
	n := 40
	if c.thorough() {
		n = 400
	}
	for i := 0; i < n; i++ {
		g := &docGen{rng: c.rng, maxDepth: 1 + c.rng.Intn(6), maxWidth: 1 + c.rng.Intn(4), wsProb: 0.1, maxStr: 5}
		d := g.container("[{"[c.rng.Intn(2)])
		out = append(out, bufStep{data: d})
		if c.rng.Intn(2) == 0 {
			out = append(out, bufStep{data: mutate(c.rng, d)})
		}
	}
	return out
}

func execBufHist(steps []bufStep, j *jb) string { return execBufHistArena(steps, j, false) }

// execBufHistArena: with sameArray, every step's document is copied into one and the same array before the call on
// the shared Buffer (a caller that refills its read buffer): whatever a Buffer remembers about an earlier document
// must not be keyed on where its bytes lived or how many there were.
func execBufHistArena(steps []bufStep, j *jb, sameArray bool) string {
	buf := &rjson.Buffer{}
	var arena []byte
	j.reset()
	if sameArray {
		m := 0
		for _, s := range steps {
			if len(s.data) > m {
				m = len(s.data)
			}
		}
		arena = make([]byte, m+8)
		j.raw(`{"op":"bufhist","arena":1,"steps":[`)
	} else {
		j.raw(`{"op":"bufhist","steps":[`)
	}
	key := ""
	for si, s := range steps {
		rs, ls, _ := runBufStep(s, buf, arena)
		rn, ln, _ := runBufStep(s, nil, nil)
		if si > 0 {
			j.comma()
		}
		j.raw(`{"fn":`)
		j.int(s.fn)
		j.raw(`,"mode":`)
		j.int(s.mode)
		j.raw(`,"k":`)
		j.int(s.k)
		j.comma()
		if s.segs != nil {
			j.key("segs")
			j.segs(s.segs)
		} else {
			j.key("in")
			j.bytes(s.data)
		}
		j.raw(`,"shared":`)
		j.ints(rs)
		j.raw(`,"nil":`)
		j.ints(rn)
		j.raw(`,"slog":`)
		j.ints(ls)
		j.raw(`,"nlog":`)
		j.ints(ln)
		j.raw(`}`)
		key += fmt.Sprint(s.fn, s.mode, s.k, len(s.data), string(trunc(s.data)))
	}
	j.raw(`]}`)
	return key
}

// deepPairs: every ordered pair of (deep document, function) steps on one Buffer - what one function leaves in the
// Buffer at, just below and beyond the depth limit must not change what any other function does next.
func deepPairs(c *genCtx, sw *shardWriter, j *jb) {
	mk := func(open, close, bottom string, n int) bufStep {
		segs := []seg{{[]byte(open), n}, {[]byte(bottom), 1}, {[]byte(close), n}}
		return bufStep{data: expandSegs(segs), segs: segs}
	}
	deep := []bufStep{mk("[", "]", "", 10000), mk("[", "]", "", 10001), mk("[", "]", "1", 10050), mk("[", "", "", 10005),
		mk(`{"a":`, "}", "1", 10001), mk(`[{"a":`, "}]", "1", 5030), mk("[", "]", "", 9999)}
	// first steps also leave short stacks of many lengths behind (growth policies start from what they find), second
	// steps also go deep without reaching the limit (a growth ladder that starts from a foreign length may overshoot it)
	firsts := append([]bufStep{}, deep...)
	for _, n := range []int{1, 2, 3, 5, 64, 625, 1000, 5000, 6000} {
		firsts = append(firsts, mk("[", "]", "1", n))
	}
	firsts = append(firsts, mk(`{"a":`, "}", "1", 2), mk(`[{"a":`, "}]", "1", 3))
	// every stack length just beyond the limit (a traversal leaves one slot less than the document is deep)
	firsts = append(firsts, mk("[", "]", "1", 10002), mk("[", "]", "1", 10003), mk("[", "]", "1", 10004), mk(`{"a":`, "}", "1", 10003))
	seconds := append([]bufStep{}, deep...)
	seconds = append(seconds, mk("[", "]", "", 30000), mk("[", "]", "", 8200), mk(`{"a":`, "}", "1", 6200), mk(`[{"a":`, "}]", "1", 4600), mk("[", "]", "7", 5001))
	type fm struct{ fn, mode int }
	fms := []fm{{1, 0}, {2, 0}, {3, 0}, {4, hmZero}, {5, hmZero}, {4, hmSkipSame}, {5, hmFastSame}}
	n := 0
	for _, d1 := range firsts {
		for _, f1 := range fms {
			for _, d2 := range seconds {
				for _, f2 := range fms {
					n++
					if !c.thorough() && (n+int(c.seed))%2 != 0 {
						continue // the quick tier takes every other pair (which ones depends on the seed)
					}
					s1, s2 := d1, d2
					s1.fn, s1.mode, s2.fn, s2.mode = f1.fn, f1.mode, f2.fn, f2.mode
					key := execBufHist([]bufStep{s1, s2}, j)
					sw.write(j.b)
					c.st.noteKey("pair"+key+fmt.Sprint(n), true)
				}
			}
		}
	}
}

// sameArrayHists: the caller's read buffer refilled between calls on one Buffer.  For every document: the document,
// then a same-length corruption of it (and the other way round, and the document twice), under every ordered pair of
// functions; plus random histories in one array.
func sameArrayHists(c *genCtx, sw *shardWriter, j *jb, docs []bufStep) {
	type fm struct{ fn, mode int }
	fms := []fm{{1, 0}, {2, 0}, {3, 0}, {4, hmZero}, {5, hmZero}, {4, hmSkipSame}, {5, hmFastSame}}
	n := 0
	for _, d := range docs {
		if len(d.data) < 2 || len(d.data) > 400 {
			continue
		}
		var vars [][]byte
		for _, at := range []int{len(d.data) / 2, len(d.data) - 2, len(d.data) - 1, 0} {
			for _, b := range []byte{',', 'x'} {
				v := append([]byte{}, d.data...)
				if v[at] == b {
					continue
				}
				v[at] = b
				vars = append(vars, v)
			}
		}
		for _, f1 := range fms {
			for _, f2 := range fms {
				n++
				if !c.thorough() && f1.fn >= 4 && f2.fn >= 4 && n%3 != 0 {
					continue
				}
				v := vars[n%len(vars)]
				for _, pair := range [][2][]byte{{d.data, v}, {v, d.data}, {d.data, d.data}} {
					s1, s2 := bufStep{data: pair[0], fn: f1.fn, mode: f1.mode}, bufStep{data: pair[1], fn: f2.fn, mode: f2.mode}
					key := execBufHistArena([]bufStep{s1, s2}, j, true)
					sw.write(j.b)
					c.st.noteKey("arena"+key+fmt.Sprint(n), true)
				}
			}
		}
	}
}

func genBufHist(c *genCtx, sw *shardWriter, j *jb) {
	setCurrent("bufhist deep pairs")
	deepPairs(c, sw, j)
	docs := histDocs(c)
	setCurrent("bufhist same array")
	sameArrayHists(c, sw, j, docs)
	nh := 1500
	if c.thorough() {
		nh = 150000
	}
	for hI := 0; hI < nh; hI++ {
		setCurrent(fmt.Sprintf("bufhist %d", hI))
		nsteps := 2 + c.rng.Intn(5)
		var steps []bufStep
		for si := 0; si < nsteps; si++ {
			s := docs[c.rng.Intn(len(docs))]
			s.fn = 1 + c.rng.Intn(5)
			if s.fn >= 4 {
				s.mode = c.rng.Intn(7)
				s.k = c.rng.Intn(4)
				if len(s.data) > 5000 && s.mode == hmNested {
					s.mode = hmSkipSame
				}
			}
			steps = append(steps, s)
		}
		key := execBufHistArena(steps, j, hI%3 == 2)
		sw.write(j.b)
		c.st.noteKey(key, true)
	}
}

// ------------------------------------------------------------------ C15
type rdrResult struct {
	val interface{}
	ok  bool
}

func scribbleValue(v interface{}, rng *rand.Rand) {
	switch t := v.(type) {
	case []interface{}:
		for i := range t {
			scribbleValue(t[i], rng)
			t[i] = "SCRIBBLED"
		}
		if cap(t) > len(t) {
			t = t[:cap(t)]
			for i := range t {
				t[i] = "SPARE"
			}
		}
	case map[string]interface{}:
		for k, x := range t {
			scribbleValue(x, rng)
			t[k] = 666.0
		}
		t["__added__"] = true
	}
}

type rdrStep struct {
	fn    int // 1 ReadValue 2 ReadObject 3 ReadArray
	data  []byte
	segs  []seg
	gc    bool // force a GC before the call (perturbs sync.Pool)
	scrib bool // the caller scribbles over the result afterwards
}

func execRdrHist(steps []rdrStep, j *jb) string {
	var rd rjson.ValueReader
	var results []rdrResult
	j.reset()
	j.raw(`{"op":"rdrhist","steps":[`)
	key := ""
	for si, s := range steps {
		if s.gc {
			runtime.GC()
		}
		call := func(r *rjson.ValueReader) (v interface{}, p int, err error, panicked int) {
			defer func() {
				if x := recover(); x != nil {
					panicked = 1
				}
			}()
			data := append([]byte{}, s.data...)
			switch s.fn {
			case 1:
				v, p, err = r.ReadValue(data)
			case 2:
				var m map[string]interface{}
				m, p, err = r.ReadObject(data)
				if err == nil {
					v = m
				}
			default:
				var a []interface{}
				a, p, err = r.ReadArray(data)
				if err == nil {
					v = a
				}
			}
			scribble(data) // the input is overwritten after the call
			return
		}
		v, p, err, pan := call(&rd)
		fv, fp, ferr, fpan := call(&rjson.ValueReader{})
		ok := err == nil && pan == 0
		results = append(results, rdrResult{v, ok})
		if si > 0 {
			j.comma()
		}
		j.raw(`{"fn":`)
		j.int(s.fn)
		j.raw(`,"gc":`)
		j.b01(s.gc)
		j.raw(`,"scrib":`)
		j.b01(s.scrib)
		j.comma()
		if s.segs != nil {
			j.key("segs")
			j.segs(s.segs)
		} else {
			j.key("in")
			j.bytes(s.data)
		}
		j.raw(`,"res":`)
		j.ints([]int{b2i(ok), p, pan})
		j.raw(`,"tree":`)
		if ok {
			j.treeOrBig(v)
		} else {
			j.raw(`["none"]`)
		}
		j.raw(`,"fresh":`)
		j.ints([]int{b2i(ferr == nil && fpan == 0), fp, fpan})
		j.raw(`,"freshtree":`)
		if ferr == nil && fpan == 0 {
			j.treeOrBig(fv)
		} else {
			j.raw(`["none"]`)
		}
		// every earlier result of the shared reader that the caller has not modified is re-serialised
		j.raw(`,"recheck":[`)
		firstR := true
		for ri := 0; ri < si; ri++ {
			if !results[ri].ok {
				continue
			}
			if !firstR {
				j.comma()
			}
			firstR = false
			j.raw(`[`)
			j.int(ri + 1)
			j.comma()
			j.treeOrBig(results[ri].val)
			j.raw(`]`)
		}
		j.raw(`]}`)
		if ok && s.scrib {
			scribbleValue(v, nil)
			results[si].ok = false
		}
		key += fmt.Sprint(s.fn, len(s.data), string(trunc(s.data)))
	}
	j.raw(`]}`)
	return key
}

func genRdrHist(c *genCtx, sw *shardWriter, j *jb) {
	var docs []rdrStep
	for _, d := range treeShapes(c) {
		if len(d) < 400 {
			docs = append(docs, rdrStep{data: d})
		}
	}
	mk := func(open, close, bottom string, n int) rdrStep {
		segs := []seg{{[]byte(open), n}, {[]byte(bottom), 1}, {[]byte(close), n}}
		return rdrStep{data: expandSegs(segs), segs: segs}
	}
	deep := []rdrStep{mk("[", "]", "1", 10001), mk(`{"a":`, "}", "1", 10001), mk("[", "", "", 500), mk(`[{"a":`, "", "", 300),
		// exactly at the limit: the deepest documents a fresh reader accepts
		mk("[", "]", "1", 10000), mk(`{"a":`, "}", "1", 10000), mk(`[{"a":`, "}]", "null", 5000), mk(`{"a":[`, "]}", "", 5000),
		mk("[", "]", "", 9999)}
	n := 60
	if c.thorough() {
		n = 600
	}
	for i := 0; i < n; i++ {
		g := &docGen{rng: c.rng, maxDepth: 1 + c.rng.Intn(5), maxWidth: 1 + c.rng.Intn(5), wsProb: 0.1, maxStr: 6, hiBytes: true}
		d := g.doc()
		docs = append(docs, rdrStep{data: d})
		if c.rng.Intn(3) == 0 {
			docs = append(docs, rdrStep{data: mutate(c.rng, d)})
		}
	}
	nh := 800
	if c.thorough() {
		nh = 20000
	}
	for hI := 0; hI < nh; hI++ {
		setCurrent(fmt.Sprintf("rdrhist %d", hI))
		nsteps := 2 + c.rng.Intn(5)
		var steps []rdrStep
		for si := 0; si < nsteps; si++ {
			var s rdrStep
			if c.rng.Intn(8) == 0 {
				s = deep[c.rng.Intn(len(deep))]
			} else {
				s = docs[c.rng.Intn(len(docs))]
			}
			s.fn = 1 + c.rng.Intn(3)
			s.gc = c.rng.Intn(4) == 0
			s.scrib = c.rng.Intn(2) == 0
			steps = append(steps, s)
		}
		key := execRdrHist(steps, j)
		sw.write(j.b)
		c.st.noteKey(key, true)
	}
}

func stepInput(m map[string]interface{}) ([]byte, []seg) {
	if s, ok := m["segs"].([]interface{}); ok {
		var segs []seg
		for _, x := range s {
			p := x.([]interface{})
			segs = append(segs, seg{anyBytes(p[0]), int(p[1].(float64))})
		}
		return expandSegs(segs), segs
	}
	return anyBytes(m["in"]), nil
}

func genHist(c *genCtx) error {
	var j jb
	if c.want("buf") {
		genBufHist(c, c.sw, &j)
	}
	if c.want("rdr") {
		genRdrHist(c, c.sw, &j)
	}
	return nil
}

func init() {
	families["hist"] = genHist
	replayers["bufhist"] = func(ev map[string]interface{}) ([]byte, error) {
		var steps []bufStep
		for _, x := range ev["steps"].([]interface{}) {
			m := x.(map[string]interface{})
			d, segs := stepInput(m)
			steps = append(steps, bufStep{fn: int(m["fn"].(float64)), mode: int(m["mode"].(float64)), k: int(m["k"].(float64)), data: d, segs: segs})
		}
		var j jb
		ar, _ := ev["arena"].(float64)
		execBufHistArena(steps, &j, ar == 1)
		return append([]byte{}, j.b...), nil
	}
	replayers["rdrhist"] = func(ev map[string]interface{}) ([]byte, error) {
		var steps []rdrStep
		for _, x := range ev["steps"].([]interface{}) {
			m := x.(map[string]interface{})
			d, segs := stepInput(m)
			steps = append(steps, rdrStep{fn: int(m["fn"].(float64)), data: d, segs: segs, gc: m["gc"].(float64) == 1, scrib: m["scrib"].(float64) == 1})
		}
		// what a reused reader does depends on its pool of child readers, which the garbage collector
		// empties at moments replay cannot recreate exactly: the history is re-executed as recorded, with a
		// collection before every step, and with none; every execution is a real one and all are validated
		var out []byte
		for variant := 0; variant < 6; variant++ {
			vs := append([]rdrStep{}, steps...)
			for i := range vs {
				switch variant % 3 {
				case 1:
					vs[i].gc = true
				case 2:
					vs[i].gc = false
				}
			}
			var j jb
			execRdrHist(vs, &j)
			if variant > 0 {
				out = append(out, '\n')
			}
			out = append(out, j.b...)
		}
		return out, nil
	}
}
