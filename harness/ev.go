package main

// Event writing: one JSON object per line, integers only (< 2^31), sharded
// round-robin over K files so that K TLC instances can validate in parallel.

import (
	"bufio"
	"fmt"
	"os"
	"path/filepath"
	"strconv"
	"sync"
)

type shardWriter struct {
	mu     sync.Mutex
	files  []*os.File
	ws     []*bufio.Writer
	next   int
	count  int
	counts []int
	// samples keeps the first few events verbatim for the evidence file
	samples []string
}

func newShardWriter(dir, prefix string, k int) (*shardWriter, error) {
	sw := &shardWriter{}
	for i := 0; i < k; i++ {
		f, err := os.Create(filepath.Join(dir, fmt.Sprintf("%s.%02d.ndjson", prefix, i)))
		if err != nil {
			return nil, err
		}
		sw.files = append(sw.files, f)
		sw.ws = append(sw.ws, bufio.NewWriterSize(f, 1<<20))
	}
	sw.counts = make([]int, k)
	return sw, nil
}

// write appends one event line (without trailing newline) to the next shard.
func (sw *shardWriter) write(line []byte) {
	sw.mu.Lock()
	defer sw.mu.Unlock()
	i := sw.next
	sw.next = (sw.next + 1) % len(sw.ws)
	sw.ws[i].Write(line)
	sw.ws[i].WriteByte('\n')
	sw.counts[i]++
	sw.count++
	if len(sw.samples) < 4 && len(line) < 600 {
		sw.samples = append(sw.samples, string(line))
	} else if sw.count == 1 {
		sw.samples = append(sw.samples, string(line[:600])+"...(truncated)")
	}
}

// writeTo appends a line to a given shard (for families whose events span several consecutive lines).
func (sw *shardWriter) writeTo(i int, line []byte) {
	sw.mu.Lock()
	defer sw.mu.Unlock()
	sw.ws[i].Write(line)
	sw.ws[i].WriteByte('\n')
	sw.counts[i]++
	sw.count++
	if len(sw.samples) < 4 && len(line) < 600 {
		sw.samples = append(sw.samples, string(line))
	}
}

func (sw *shardWriter) close() error {
	for i := range sw.ws {
		if err := sw.ws[i].Flush(); err != nil {
			return err
		}
		if err := sw.files[i].Close(); err != nil {
			return err
		}
	}
	return nil
}

// jb is a tiny JSON line builder.
type jb struct{ b []byte }

func (j *jb) reset()       { j.b = j.b[:0] }
func (j *jb) raw(s string) { j.b = append(j.b, s...) }
func (j *jb) int(n int)    { j.b = strconv.AppendInt(j.b, int64(n), 10) }
func (j *jb) comma()       { j.b = append(j.b, ',') }
func (j *jb) key(k string) {
	j.b = append(j.b, '"')
	j.b = append(j.b, k...)
	j.b = append(j.b, '"', ':')
}
func (j *jb) str(s string) { j.b = strconv.AppendQuote(j.b, s) }
func (j *jb) b01(v bool) {
	if v {
		j.b = append(j.b, '1')
	} else {
		j.b = append(j.b, '0')
	}
}

func (j *jb) bytes(data []byte) {
	j.b = append(j.b, '[')
	for i, c := range data {
		if i > 0 {
			j.b = append(j.b, ',')
		}
		j.b = strconv.AppendInt(j.b, int64(c), 10)
	}
	j.b = append(j.b, ']')
}

func (j *jb) ints(v []int) {
	j.b = append(j.b, '[')
	for i, c := range v {
		if i > 0 {
			j.b = append(j.b, ',')
		}
		j.b = strconv.AppendInt(j.b, int64(c), 10)
	}
	j.b = append(j.b, ']')
}

// seg is a run-length piece of a long input: unit repeated count times.
type seg struct {
	unit  []byte
	count int
}

func expandSegs(segs []seg) []byte {
	n := 0
	for _, s := range segs {
		n += len(s.unit) * s.count
	}
	out := make([]byte, 0, n)
	for _, s := range segs {
		for i := 0; i < s.count; i++ {
			out = append(out, s.unit...)
		}
	}
	return out
}

func (j *jb) segs(segs []seg) {
	j.b = append(j.b, '[')
	for i, s := range segs {
		if i > 0 {
			j.b = append(j.b, ',')
		}
		j.b = append(j.b, '[')
		j.bytes(s.unit)
		j.b = append(j.b, ',')
		j.int(s.count)
		j.b = append(j.b, ']')
	}
	j.b = append(j.b, ']')
}

func b2i(v bool) int {
	if v {
		return 1
	}
	return 0
}

// panicEvent replaces the event under construction by a record of the fact that a
// call panicked: {"op":"panic","orig":<op>,"in":[...]} - every trace specification
// turns it into a C10 failure; replay re-runs the original observer on the input.
func (j *jb) panicEvent(orig string, data []byte) {
	j.reset()
	j.raw(`{"op":"panic","orig":`)
	j.str(orig)
	j.raw(`,"in":`)
	j.bytes(data)
	j.raw(`}`)
}

// relayout returns a copy of data in one of nine layouts of a caller's slice (times eight start offsets within the
// backing array), chosen by the bytes themselves (so that
// a replay of the same input recreates the same layout): capacity as the allocator rounds it, capacity == length
// (the input ends where its backing array ends), and spare capacity holding bytes that would continue or close the
// token or container the input ends in - a digit, a quote, a closing bracket of either kind, the last letter of a
// literal, UTF-8 continuation bytes.  What lies beyond len(data) is not input: no result may depend on the layout,
// and no specification clause mentions it.
var relayoutTails = [][]byte{
	[]byte(`5"]}]}"]}  `), []byte(`"]}]}"]}5  `), []byte(`]}]"}]}5"  `), []byte(`}]}"]}]5"  `), []byte(`e"]}]}"]}5 `), []byte(`l"]}]}"]}5 `),
	{0x80, 0xbf, 0x80, '"', ']', '}', ' ', ' ', ' ', ' ', ' '},
}

// relayoutCopy is relayout for callers that go on to overwrite their copy of the input: always a private copy.
func relayoutCopy(data []byte) []byte {
	if concMode {
		return append([]byte(nil), data...)
	}
	return relayout(data)
}

func relayout(data []byte) []byte {
	if concMode {
		return data // the goroutines of the concurrent driver share their input bytes (laid out by the driver)
	}
	h := uint32(2166136261)
	for _, b := range data {
		h = (h ^ uint32(b)) * 16777619
	}
	n := len(data)
	off := int(h>>20) % 8 // where in its backing array the input starts (word-at-a-time code is alignment sensitive)
	switch k := int(h>>8) % 9; k {
	case 0:
		return append([]byte(nil), data...)
	case 1:
		out := make([]byte, off+n)
		copy(out[off:], data)
		return out[off : off+n : off+n]
	default:
		t := relayoutTails[k-2]
		out := make([]byte, off+n+len(t))
		copy(out[off:], data)
		copy(out[off+n:], t)
		return out[off : off+n]
	}
}
