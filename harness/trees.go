package main

// Family "trees": generic decoding (C03) with encoding/json as a second
// implementation and the StdLibCompatible slice/map helpers (C17).

import (
	"bytes"
	"encoding/json"
	"fmt"
	"math/rand"
	"runtime"
	"runtime/debug"
	"sort"
	"strings"

	"github.com/willabides/rjson"
)

const maxLoggedDepth = 100

func treeDepth(v interface{}) int {
	// iterative-ish: recursion is fine here, Go stacks grow
	switch t := v.(type) {
	case []interface{}:
		d := 0
		for _, x := range t {
			if k := treeDepth(x); k > d {
				d = k
			}
		}
		return d + 1
	case map[string]interface{}:
		d := 0
		for _, x := range t {
			if k := treeDepth(x); k > d {
				d = k
			}
		}
		return d + 1
	}
	return 0
}

func (j *jb) tree(v interface{}) {
	switch t := v.(type) {
	case nil:
		j.raw(`["null"]`)
	case bool:
		if t {
			j.raw(`["true"]`)
		} else {
			j.raw(`["false"]`)
		}
	case float64:
		j.raw(`["num",`)
		j.ints(encF(t))
		j.raw(`]`)
	case string:
		j.raw(`["str",`)
		j.bytes([]byte(t))
		j.raw(`]`)
	case []interface{}:
		j.raw(`["arr",[`)
		for i, x := range t {
			if i > 0 {
				j.comma()
			}
			j.tree(x)
		}
		j.raw(`]]`)
	case map[string]interface{}:
		keys := make([]string, 0, len(t))
		for k := range t {
			keys = append(keys, k)
		}
		sort.Strings(keys)
		j.raw(`["obj",[`)
		for i, k := range keys {
			if i > 0 {
				j.comma()
			}
			j.raw(`[`)
			j.bytes([]byte(k))
			j.comma()
			j.tree(t[k])
			j.raw(`]`)
		}
		j.raw(`]]`)
	default:
		j.raw(fmt.Sprintf(`["unexpected:%T"]`, v))
	}
}

func (j *jb) treeOrBig(v interface{}) {
	if treeDepth(v) > maxLoggedDepth {
		j.raw(`["big"]`)
		return
	}
	j.tree(v)
}

var treeReader rjson.ValueReader // reused across the whole run

func init() { warmUp(&treeReader) }

// warmUp gives a reader a fixed history (escaped keys and strings, nested containers, failed reads),
// so that what the "reused reader" observations depend on is recreated by replay.
func warmUp(r *rjson.ValueReader) {
	for _, d := range []string{`{"k\n1":"v\t1","a":[1,"\u00e9x",{"b\\":[true,null,"long string with an escape \n inside it"]}],"c":{"d":{}}}`,
		`[[1,2,3],[],{"x":[]},"s\u0041"]`, `{"a":[1,`, `[1,{"b":}]`, `"top\nlevel"`, `{"m":{"n":{"o":[{"p":"q\r"}]}}}`} {
		r.ReadValue([]byte(d))
	}
	r.ReadObject([]byte(`{"z\u0031":[{"y":"\n"}]}`))
	r.ReadArray([]byte(`[{"w":"\t"},["v\\"]]`))
}

func runTree(sw *shardWriter, j *jb, data []byte, segs []seg, st *genStats) {
	runTreeWith(&treeReader, sw, j, data, segs, st)
}

func runTreeWith(rd *rjson.ValueReader, sw *shardWriter, j *jb, data []byte, segs []seg, st *genStats) {
	data = relayout(data)
	orig := append([]byte{}, data...)
	panics := 0
	j.reset()
	j.raw(`{"op":"tree",`)
	if segs != nil {
		j.key("segs")
		j.segs(segs)
	} else {
		j.key("in")
		j.bytes(data)
	}
	j.raw(`,"calls":[`)
	first := true
	call := func(fn int, f func() (interface{}, int, error)) {
		var v interface{}
		var p int
		var err error
		ok := false
		guardPanic(&panics, func() { v, p, err = f(); ok = true })
		if !first {
			j.comma()
		}
		first = false
		j.raw(`{"fn":`)
		j.int(fn)
		j.raw(`,"ok":`)
		j.b01(ok && err == nil)
		j.raw(`,"p":`)
		j.int(p)
		j.raw(`,"tree":`)
		if ok && err == nil {
			j.treeOrBig(v)
		} else {
			j.raw(`["none"]`)
		}
		j.raw(`}`)
	}
	var rv interface{}
	var rvOK bool
	call(1, func() (interface{}, int, error) {
		v, p, err := rjson.ReadValue(data)
		rv, rvOK = v, err == nil
		return v, p, err
	})
	call(2, func() (interface{}, int, error) { return rd.ReadValue(data) })
	call(3, func() (interface{}, int, error) {
		v, p, err := rjson.ReadObject(data)
		if err != nil {
			return nil, p, err
		}
		return v, p, err
	})
	call(4, func() (interface{}, int, error) {
		v, p, err := rjson.ReadArray(data)
		if err != nil {
			return nil, p, err
		}
		return v, p, err
	})
	call(5, func() (interface{}, int, error) {
		v, p, err := rd.ReadObject(data)
		if err != nil {
			return nil, p, err
		}
		return v, p, err
	})
	call(6, func() (interface{}, int, error) {
		v, p, err := rd.ReadArray(data)
		if err != nil {
			return nil, p, err
		}
		return v, p, err
	})
	// the reader's exported handler methods used directly: a zero ValueReader handed to the traversal functions
	// (the values it collects cannot be retrieved; success and offset can)
	call(7, func() (interface{}, int, error) {
		var z rjson.ValueReader
		p, err := rjson.HandleArrayValues(data, &z, nil)
		return nil, p, err
	})
	call(8, func() (interface{}, int, error) {
		var z rjson.ValueReader
		p, err := rjson.HandleObjectValues(data, &z, nil)
		return nil, p, err
	})
	j.raw(`],"std":{"seen":`)
	if len(data) > 1<<16 {
		j.raw(`0,"ok":0,"tree":["none"]}`)
	} else {
		var sv interface{}
		err := json.Unmarshal(data, &sv)
		j.raw(`1,"ok":`)
		j.b01(err == nil)
		j.raw(`,"tree":`)
		if err == nil {
			j.treeOrBig(sv)
		} else {
			j.raw(`["none"]`)
		}
		j.raw(`}`)
	}
	// StdLibCompatibleSlice / Map on the decoded value
	j.raw(`,"compat":{"seen":`)
	done := false
	if rvOK && treeDepth(rv) <= maxLoggedDepth {
		switch t := rv.(type) {
		case []interface{}:
			var out []interface{}
			var before jb
			before.tree(t)
			guardPanic(&panics, func() { out = rjson.StdLibCompatibleSlice(t) })
			j.raw(`1,"arg":`)
			j.raw(string(before.b))
			j.raw(`,"out":`)
			j.tree(out)
			j.raw(`,"argafter":`)
			j.tree(t)
			done = true
		case map[string]interface{}:
			var out map[string]interface{}
			var before jb
			before.tree(t)
			guardPanic(&panics, func() { out = rjson.StdLibCompatibleMap(t) })
			j.raw(`1,"arg":`)
			j.raw(string(before.b))
			j.raw(`,"out":`)
			j.tree(out)
			j.raw(`,"argafter":`)
			j.tree(t)
			done = true
		}
	}
	if !done {
		j.raw(`0`)
	}
	// trees too deep to log: the strings (keys and values, in walk order) of the helper's argument and of its result
	j.raw(`},"deepcompat":{"seen":`)
	if rvOK && treeDepth(rv) > maxLoggedDepth && singleKeyed(rv) {
		var out interface{}
		guardPanic(&panics, func() {
			switch t := rv.(type) {
			case []interface{}:
				out = rjson.StdLibCompatibleSlice(t)
			case map[string]interface{}:
				out = rjson.StdLibCompatibleMap(t)
			}
		})
		j.raw(`1,"arg":[`)
		j.leafStrings(rv, new(bool))
		j.raw(`],"out":[`)
		j.leafStrings(out, new(bool))
		j.raw(`]`)
	} else {
		j.raw(`0`)
	}
	j.raw(`},"panics":`)
	j.int(panics)
	j.raw(`,"unch":`)
	j.b01(bytes.Equal(orig, data))
	j.raw(`}`)
	if sw != nil {
		sw.write(j.b)
	}
	st.note(data, panics > 0)
}

// singleKeyed: no object in v has more than one key (so that walk order does not depend on how keys sort).
func singleKeyed(v interface{}) bool {
	for {
		switch t := v.(type) {
		case []interface{}:
			if len(t) != 1 {
				for _, x := range t {
					if !singleKeyed(x) {
						return false
					}
				}
				return true
			}
			v = t[0]
		case map[string]interface{}:
			if len(t) > 1 {
				return false
			}
			if len(t) == 0 {
				return true
			}
			for _, x := range t {
				v = x
			}
		default:
			return true
		}
	}
}

// leafStrings writes every key and string value of v in walk order.
func (j *jb) leafStrings(v interface{}, some *bool) {
	emit := func(s string) {
		if *some {
			j.comma()
		}
		*some = true
		j.bytes([]byte(s))
	}
	for {
		switch t := v.(type) {
		case string:
			emit(t)
			return
		case []interface{}:
			if len(t) != 1 {
				for _, x := range t {
					j.leafStrings(x, some)
				}
				return
			}
			v = t[0]
		case map[string]interface{}:
			if len(t) != 1 {
				return
			}
			for k, x := range t {
				emit(k)
				v = x
			}
		default:
			return
		}
	}
}

// shaped documents for generic decoding
func treeShapes(c *genCtx) [][]byte {
	var out [][]byte
	add := func(s string) { out = append(out, []byte(s)) }
	// duplicate keys in raw and escaped spelling
	for _, s := range []string{`{"a":1,"a":2}`, `{"a":1,"\u0061":2}`, `{"\u0061":1,"a":2,"\u0061":3}`, `{"a\n":1,"a\u000a":2}`, `{"":1,"":[],"":{}}`,
		`{"k":{"k":1,"k":2},"k":{"k":3}}`, `{"\ud83d\ude00":1,"😀":2}`, `{"\ud800":1,"\udc00":2}`, "{\"\xff\":1,\"\xfe\":2}", "{\"\xff\":1,\"\\ufffd\":2}",
		`{"\\":1,"\/":2,"/":3}`, `{"\"":1}`, `{"a":1,"b":2,"a":3,"b":4,"c":5}`, `{"x":null,"x":"s"}`,
		`[]`, `{}`, `[[]]`, `[{}]`, `{"a":[]}`, `{"a":{}}`, `[[],[],{}]`, `[[[[[[]]]]]]`, `{"a":{"a":{"a":{}}}}`, `[null]`, `[true,false,null]`,
		`[1,2.5,-0,1e2,1E-2,0.1]`, `[1e308,1e309]`, `[1e400]`, `{"a":1e400}`, `[-1e400,1]`, `[0e400]`, `[1e-400]`, `null`, ` null `, `true`, `"s"`, `12`,
		`[1,`, `[1,]`, `{"a"}`, `{"a":}`, `{,}`, `[,]`, `[1 2]`, `{"a":1 "b":2}`, `[1]]`, `{"a":1}}`, `nul`, `[nul]`, `{"a":nul}`, `[tru]`, `["abc]`, `{"a":"x}`,
		"[\"\xff\xfe\"]", "[\"a\x00b\"]", "{\"a\x1f\":1}", `["\ud800"]`, `["\udc00\ud800"]`, `["\ud800\udc00"]`, `["\u00e9\u20ac"]`} {
		add(s)
		add(" " + s + " ")
		add(s + ",")
	}
	// sibling (and consecutive) objects and strings whose spellings are each other's encodings: the raw bytes of one
	// key equal the *decoded* text of the key at the same position in the previous object, and the other way round
	// (anything remembered about "the previous key / string" must be keyed on the same form it is compared with)
	for _, raw := range []string{`a\nb`, `\u0041`, `\"`, `\\`, `\/`, `x\ty`, `\ud83d\ude00`, `k\u00e9`, `plain`} {
		enc := strings.ReplaceAll(strings.ReplaceAll(raw, `\`, `\\`), `"`, `\"`)
		for _, pr := range [][2]string{{enc, raw}, {raw, enc}, {raw, raw}} {
			add(`{"` + pr[0] + `":1}`)
			add(`{"` + pr[1] + `":2}`)
			add(`[{"` + pr[0] + `":1},{"` + pr[1] + `":2}]`)
			add(`{"x":{"p":0,"` + pr[0] + `":"` + pr[0] + `"},"y":{"p":0,"` + pr[1] + `":"` + pr[1] + `"}}`)
			add(`["` + pr[0] + `","` + pr[1] + `"]`)
			add(`[[{"` + pr[0] + `":[]}],[{"` + pr[1] + `":[]}]]`)
		}
	}
	// boundary code points as escapes in values and keys, alone and after plain text (also on the reused reader)
	for _, cp := range []int{0, 1, 0x1f, 0x20, 0x22, 0x5c, 0x7e, 0x7f, 0x80, 0x81, 0xff, 0x100, 0x7ff, 0x800, 0xfff, 0x1000, 0xd7ff, 0xd800, 0xdbff,
		0xdc00, 0xdfff, 0xe000, 0xfffd, 0xfffe, 0xffff} {
		e := fmt.Sprintf(`\u%04x`, cp)
		E := fmt.Sprintf(`\u%04X`, cp)
		add(`"` + e + `"`)
		add(`["` + e + `","a` + E + `","` + e + e + `"]`)
		add(`{"` + e + `":1,"k` + E + `":"` + e + `z"}`)
	}
	// runs of 0..7 backslash escapes (and an escaped quote after them) at the end, at the start and in the middle of
	// string members and keys: look-back shortcuts for "is this quote escaped" are wrong only for particular run lengths
	for k := 0; k <= 7; k++ {
		bs := strings.Repeat(`\\`, k)
		for _, s := range []string{bs, "x" + bs, bs + "y", "x" + bs + `\"`, bs + `\"` + bs, bs + `\/`} {
			add(`"` + s + `"`)
			add(`["` + s + `",1,"` + s + `"]`)
			add(`{"` + s + `":"` + s + `","n":[{"` + s + `k":["` + s + `"]}]}`)
		}
	}
	// invalid UTF-8 in keys and values in front of / inside every kind of value, at several depths
	for _, bad := range []string{"\xff", "\xc3", "\xe2\x82", "\xf0\x9f\x98", "\xed\xa0\x80", "\xc0\x80", "a\x80b"} {
		for _, val := range []string{`"v"`, `1`, `null`, `true`, `[]`, `["a","b"]`, `{}`, `{"x":1}`, `[{"y":[1]}]`, `"` + bad + `"`,
			`["a` + bad + `"]`, `[1,["` + bad + `"]]`, `[{"` + bad + `":"` + bad + `"}]`, `{"in` + bad + `":["` + bad + `"]}`} {
			add(`{"k` + bad + `":` + val + `}`)
			add(`[{"outer":{"list` + bad + `":` + val + `}}]`)
			add(`{"a":[1,{"` + bad + `":` + val + `,"z":"` + bad + `"}]}`)
		}
		add(`["` + bad + `",["` + bad + `"],{"k":"` + bad + `"}]`)
	}
	// big-then-small siblings (size prediction and pooling), wide and deep siblings
	for _, n := range []int{1, 2, 8, 50} {
		big := make([]string, n)
		for i := range big {
			big[i] = fmt.Sprintf(`"k%d":%d`, i, i)
		}
		add(`[{` + strings.Join(big, ",") + `},{},{"a":1},[],[1,2,3]]`)
		add(`{"a":{` + strings.Join(big, ",") + `},"b":{},"c":{"x":1}}`)
		el := make([]string, n)
		for i := range el {
			el[i] = fmt.Sprint(i)
		}
		add(`[[` + strings.Join(el, ",") + `],[],[1],{"a":[` + strings.Join(el, " , ") + `]}]`)
	}
	return out
}

func genTrees(c *genCtx) error {
	var j jb
	emit := func(d []byte) {
		setCurrent(fmt.Sprintf("trees %q", trunc(d)))
		runTree(c.sw, &j, d, nil, c.st)
	}
	if c.want("shapes") {
		for _, d := range treeShapes(c) {
			emit(d)
		}
		for _, d := range lenientDocs() {
			emit(d)
		}
	}
	// number leaves: one literal per abstract class of the scanner model (every conversion path and boundary
	// of internal/fp), as an array element and as object members
	if c.want("numbers") && c.floatLitsPath != "" {
		lits, err := loadFloatLits(c.floatLitsPath)
		if err != nil {
			return err
		}
		for _, l := range lits {
			emit(append(append([]byte("["), l...), ']'))
			emit(append(append(append(append([]byte(`{"a":`), l...), `,"b":[0,`...), l...), "]}"...))
			c.st.Extra["spec_number_class_witnesses"]++
		}
	}
	if c.want("sweep") && c.statesPath != "" {
		ss, err := loadStates(c.statesPath)
		if err != nil {
			return err
		}
		mem := classMembers(ss)
		conts := [][]byte{[]byte("5"), []byte("0"), []byte(`"`)}
		if c.thorough() {
			conts = tokenCompletions(ss)
		}
		parallelBases(sweepBases(ss, true, false, c.rng), c.st, c.rng, func(base sweepBase, rng *rand.Rand, st *genStats, w *sweepWorker) {
			if base.st.Out != "run" {
				return
			}
			o := sweepOpts{allBytes: c.thorough() && !base.edge, stop: false, rejectConts: conts}
			if !c.thorough() {
				// (the parse and handler sweeps try three members of every class and all 256 bytes; here one member)
				o.rejectConts = conts[:1]
				o.onePerClass = true
				if base.edge {
					o.rejectConts = nil // every transition is taken, continued by the bytes the specification accepts;
					o.viableOnly = true // rejected next bytes are tried from the state bases (and here in the thorough tier)
				}
			}
			forSweepInputs(ss, mem, base, o, rng, func(in []byte, viable bool) {
				if !w.rdWarm {
					warmUp(&w.rd)
					w.rdWarm = true
				}
				runTreeWith(&w.rd, c.sw, &w.j, in, nil, st)
			})
		})
	}
	if c.want("depth") {
		depths := []int{9999, 10000, 10001}
		for _, d := range depths {
			for _, sh := range [][3]string{{"[", "]", ""}, {"[", "]", "1"}, {`{"a":`, "}", "1"}, {`{"a":`, "}", "{}"}, {`[{"a":`, "}]", "null"}, {`{"a":[`, "]}", `"s"`},
				// invalid UTF-8 in the deepest container and in the keys on the way down (the slice/map helpers at depth)
				// every level's deep member preceded by a sibling container (levels handed to recycled child readers)
				{"[[],", "]", "1"}, {`{"s":{},"a":`, "}", "1"}, {"[{},", "]", "[]"}, {`{"s":[1],"a":[[],`, "]}", "1"},
				{"[", "]", "\"v\xff\""}, {"{\"k\xfe\":", "}", "\"v\xff\""}, {"[{\"a\xc3\":", "}]", "[\"\xe2\x82\"]"}} {
				per := 1
				if len(sh[1]) == 2 {
					per = 2
				}
				n := d / per
				segs := []seg{{[]byte(sh[0]), n}}
				if d%per == 1 {
					segs = append(segs, seg{[]byte("["), 1})
				}
				segs = append(segs, seg{[]byte(sh[2]), 1})
				if d%per == 1 {
					segs = append(segs, seg{[]byte("]"), 1})
				}
				segs = append(segs, seg{[]byte(sh[1]), n})
				data := expandSegs(segs)
				setCurrent(fmt.Sprintf("trees depth %d %s", d, sh[0]))
				runTree(c.sw, &j, data, segs, c.st)
			}
		}
	}
	var docs [][]byte
	if c.want("walks") {
		docs = append(docs, loadWalks(c.walksPath)...)
	}
	if c.want("corpus") {
		docs = append(docs, corpusFiles(c.tier, c.rng)...)
	}
	if c.want("random") {
		n := 2500
		if c.thorough() {
			n = 40000
		}
		for i := 0; i < n; i++ {
			g := &docGen{rng: c.rng, maxDepth: 1 + c.rng.Intn(6), maxWidth: 1 + c.rng.Intn(6),
				wsProb: []float64{0, 0.2, 0.5}[c.rng.Intn(3)], maxStr: 1 + c.rng.Intn(10), hiBytes: c.rng.Intn(2) == 0}
			docs = append(docs, g.doc())
		}
	}
	for _, d := range docs {
		emit(d)
		emit(mutate(c.rng, d))
	}
	return nil
}

func init() {
	families["trees"] = genTrees
	replayers["tree"] = func(ev map[string]interface{}) ([]byte, error) {
		var j jb
		var segs []seg
		if s, ok := ev["segs"].([]interface{}); ok {
			for _, x := range s {
				p := x.([]interface{})
				segs = append(segs, seg{anyBytes(p[0]), int(p[1].(float64))})
			}
		}
		// what the reused reader does depends on its pool of child readers, which the garbage collector empties at
		// moments replay cannot recreate: the case is re-executed with the collector switched off (the pool keeps
		// what the warm-up left), as is, with a reader that has just been through every entry point on a nested
		// document, and after two forced collections (the pool is empty); every execution is a real one
		data := evInput(ev)
		var out []byte
		for variant := 0; variant < 4; variant++ {
			rd := new(rjson.ValueReader)
			old := 100
			switch variant {
			case 0:
				old = debug.SetGCPercent(-1)
				warmUp(rd)
			case 1:
				rd = &treeReader
			case 2:
				warmUp(rd)
				rd.ReadArray([]byte(`[[{"a":[1]}],{"b":{"c":[]}}]`))
				rd.ReadObject([]byte(`{"a":[{"b":[2]}],"c":{"d":{}}}`))
				rd.ReadValue([]byte(`[{"e":[[3]]}]`))
			case 3:
				warmUp(rd)
				runtime.GC()
				runtime.GC()
			}
			runTreeWith(rd, nil, &j, data, segs, newStats())
			if variant == 0 {
				debug.SetGCPercent(old)
			}
			if variant > 0 {
				out = append(out, '\n')
			}
			out = append(out, j.b...)
		}
		return out, nil
	}
}
