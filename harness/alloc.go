package main

// Family "alloc": zero-allocation obligations (C19) and memory cost (C20).
// The Go runtime produces the numbers; the specification decides when zero is
// owed and does the accounting.

import (
	"bytes"
	"fmt"
	"runtime"
	"strings"
	"testing"

	"github.com/willabides/rjson"
)

// --------------------------------------------------------------------- C19
type noAllocHandler struct {
	buf  *rjson.Buffer
	mode int // 0: return 0; 1: exact via SkipValue with the (warmed) buffer
	n    int
}

func (h *noAllocHandler) HandleArrayValue(data []byte) (int, error) {
	h.n++
	if h.mode == 1 {
		return rjson.SkipValue(data, h.buf)
	}
	return 0, nil
}

func (h *noAllocHandler) HandleObjectValue(_, data []byte) (int, error) {
	return h.HandleArrayValue(data)
}

type allocCase struct {
	warmFn  string // the function that warmed the Buffer ("" = SkipValue, which needs the deepest stack)
	between bool   // between warm-up and measurement, every buffer-taking function runs on short documents with the same buffer
	fn      string
	data    []byte
	segs    []seg
	warm    []seg // document the buffer was warmed on (buffer-taking functions)
	gc      bool  // the measured call is the first one after two forced garbage collections (sync.Pool contents are gone)
	pre     int   // destination: existing length
	cap     int   // destination: capacity
}

// runAlloc measures one case.  ok reports whether the call succeeded.
func runAlloc(sw *shardWriter, j *jb, c allocCase, st *genStats) {
	data := c.data
	var buf rjson.Buffer
	var innerBuf rjson.Buffer
	if c.warm != nil {
		w := expandSegs(c.warm)
		switch c.warmFn {
		case "SkipValueFast":
			rjson.SkipValueFast(w, &buf)
		case "Valid":
			rjson.Valid(w, &buf)
		case "HandleArrayValues0":
			rjson.HandleArrayValues(w, zeroArr, &buf)
		case "HandleObjectValues0":
			rjson.HandleObjectValues(w, zeroObj, &buf)
		default:
			rjson.SkipValue(w, &buf)
		}
		rjson.SkipValue(w, &innerBuf)
	}
	if c.between && c.warm != nil {
		for _, short := range [][]byte{[]byte("1"), []byte(`"s"`), []byte("[]"), []byte(`{"a":[1]}`), []byte("[1,"), []byte("x"), {}} {
			for _, b := range []*rjson.Buffer{&buf, &innerBuf} {
				rjson.Valid(short, b)
				rjson.SkipValue(short, b)
				rjson.SkipValueFast(short, b)
				rjson.HandleArrayValues(short, zeroArr, b)
				rjson.HandleObjectValues(short, zeroObj, b)
			}
		}
	}
	dst := make([]byte, c.pre, c.cap)
	h0 := &noAllocHandler{buf: &innerBuf, mode: 0}
	h1 := &noAllocHandler{buf: &innerBuf, mode: 1}
	var f func() bool
	var i64 int64
	var i32 int32
	var in int
	var u64 uint64
	var u32 uint32
	var un uint
	var fl float64
	var bl bool
	switch c.fn {
	case "ReadInt64":
		f = func() bool { _, _, err := rjson.ReadInt64(data); return err == nil }
	case "ReadInt32":
		f = func() bool { _, _, err := rjson.ReadInt32(data); return err == nil }
	case "ReadInt":
		f = func() bool { _, _, err := rjson.ReadInt(data); return err == nil }
	case "ReadUint64":
		f = func() bool { _, _, err := rjson.ReadUint64(data); return err == nil }
	case "ReadUint32":
		f = func() bool { _, _, err := rjson.ReadUint32(data); return err == nil }
	case "ReadUint":
		f = func() bool { _, _, err := rjson.ReadUint(data); return err == nil }
	case "ReadFloat64":
		f = func() bool { _, _, err := rjson.ReadFloat64(data); return err == nil }
	case "ReadBool":
		f = func() bool { _, _, err := rjson.ReadBool(data); return err == nil }
	case "ReadNull":
		f = func() bool { _, err := rjson.ReadNull(data); return err == nil }
	case "NextToken":
		f = func() bool { _, _, err := rjson.NextToken(data); return err == nil }
	case "NextTokenType":
		f = func() bool { _, _, err := rjson.NextTokenType(data); return err == nil }
	case "DecodeInt64":
		f = func() bool { _, err := rjson.DecodeInt64(data, &i64); return err == nil }
	case "DecodeInt32":
		f = func() bool { _, err := rjson.DecodeInt32(data, &i32); return err == nil }
	case "DecodeInt":
		f = func() bool { _, err := rjson.DecodeInt(data, &in); return err == nil }
	case "DecodeUint64":
		f = func() bool { _, err := rjson.DecodeUint64(data, &u64); return err == nil }
	case "DecodeUint32":
		f = func() bool { _, err := rjson.DecodeUint32(data, &u32); return err == nil }
	case "DecodeUint":
		f = func() bool { _, err := rjson.DecodeUint(data, &un); return err == nil }
	case "DecodeFloat64":
		f = func() bool { _, err := rjson.DecodeFloat64(data, &fl); return err == nil }
	case "DecodeBool":
		f = func() bool { _, err := rjson.DecodeBool(data, &bl); return err == nil }
	case "SkipValue":
		f = func() bool { _, err := rjson.SkipValue(data, &buf); return err == nil }
	case "SkipValueFast":
		f = func() bool { _, err := rjson.SkipValueFast(data, &buf); return err == nil }
	case "Valid":
		f = func() bool { return rjson.Valid(data, &buf) }
	case "HandleArrayValues0":
		f = func() bool { _, err := rjson.HandleArrayValues(data, h0, &buf); return err == nil }
	case "HandleArrayValues1":
		f = func() bool { _, err := rjson.HandleArrayValues(data, h1, &buf); return err == nil }
	case "HandleObjectValues0":
		f = func() bool { _, err := rjson.HandleObjectValues(data, h0, &buf); return err == nil }
	case "HandleObjectValues1":
		f = func() bool { _, err := rjson.HandleObjectValues(data, h1, &buf); return err == nil }
	case "ReadStringBytes":
		f = func() bool { _, _, err := rjson.ReadStringBytes(data, dst); return err == nil }
	case "UnescapeStringContent":
		f = func() bool { _, _, err := rjson.UnescapeStringContent(data, dst); return err == nil }
	default:
		panic("unknown fn " + c.fn)
	}
	lastTier = 0
	ok := false
	panicked := 0
	var allocs float64
	func() {
		defer func() {
			if r := recover(); r != nil {
				panicked = 1
			}
		}()
		if c.gc {
			ok = f()
			runtime.GC()
			runtime.GC()
			allocs = float64(singleShotMallocs(func() { ok = f() })) / 5
			// a stray allocation by the runtime after a collection does not repeat: keep the minimum of three
			for retry := 0; retry < 2 && allocs > 0; retry++ {
				runtime.GC()
				runtime.GC()
				if a2 := float64(singleShotMallocs(func() { ok = f() })) / 5; a2 < allocs {
					allocs = a2
				}
			}
			return
		}
		if c.between || c.warmFn != "" {
			// the first call after the interleaved short calls / after the other function's warm-up is the one that matters
			allocs = float64(singleShotMallocs(func() { ok = f() })) / 5
			return
		}
		ok = f()
		allocs = testing.AllocsPerRun(5, func() { f() })
		// a real allocation in the call shows on every measurement; a stray allocation by the runtime
		// (background work on another goroutine) does not: re-measure and keep the minimum
		for retry := 0; retry < 3 && allocs > 0; retry++ {
			if a2 := testing.AllocsPerRun(5, func() { f() }); a2 < allocs {
				allocs = a2
			}
		}
	}()
	tier := lastTier
	j.reset()
	j.raw(`{"op":"alloc","fn":`)
	j.str(c.fn)
	j.comma()
	if c.segs != nil {
		j.key("segs")
		j.segs(c.segs)
	} else {
		j.key("in")
		j.bytes(data)
	}
	j.raw(`,"warm":`)
	if c.warm != nil {
		j.segs(c.warm)
	} else {
		j.raw(`[]`)
	}
	j.raw(`,"warmfn":`)
	j.str(c.warmFn)
	j.raw(`,"between":`)
	j.b01(c.between)
	j.raw(`,"gc":`)
	j.b01(c.gc)
	j.raw(`,"usesbuf":`)
	j.b01(c.warm != nil)
	j.raw(`,"usesdst":`)
	j.b01(c.fn == "ReadStringBytes" || c.fn == "UnescapeStringContent")
	j.raw(`,"dstlen":`)
	j.int(c.pre)
	j.raw(`,"dstcap":`)
	j.int(c.cap)
	j.raw(`,"ok":`)
	j.b01(ok && panicked == 0)
	j.raw(`,"allocs":`)
	j.int(int(allocs*5 + 0.5)) // total allocations over 5 runs (of the single first call for "between" cases)
	j.raw(`,"tier":`)
	j.int(tier)
	j.raw(`,"panics":`)
	j.int(panicked)
	j.raw(`}`)
	if sw != nil {
		sw.write(j.b)
	}
	st.noteKey(c.fn+string(trunc(data))+fmt.Sprint(len(data), c.pre, c.cap), len(data) > 1)
	st.Extra["alloc_tier"+fmt.Sprint(tier)]++
}

func nestSegs(open, bottom, close string, n int) []seg {
	return []seg{{[]byte(open), n}, {[]byte(bottom), 1}, {[]byte(close), n}}
}

func genAllocC19(c *genCtx, sw *shardWriter, j *jb) {
	nrun := 0
	run := func(fn string, data []byte, segs []seg, warm []seg, pre, cp int) {
		setCurrent("alloc " + fn)
		runAlloc(sw, j, allocCase{fn: fn, data: data, segs: segs, warm: warm, pre: pre, cap: cp}, c.st)
		// every third case also as the first call after two collections: whatever a function keeps in a
		// sync.Pool (or any other collectable cache) is gone then, and the call has to allocate it again
		if nrun++; nrun%3 == 0 || c.thorough() {
			setCurrent("alloc after gc " + fn)
			runAlloc(sw, j, allocCase{fn: fn, data: data, segs: segs, warm: warm, pre: pre, cap: cp, gc: true}, c.st)
		}
	}
	// numbers: integers at bounds, floats on every conversion path
	ints := []string{"0", "-0", "7", "-7", "2147483647", "-2147483648", "4294967295", "9223372036854775807", "-9223372036854775808",
		"18446744073709551615", "123456789012345678", " 12", "12,", "1234567890123456789"}
	for _, s := range ints {
		for _, fn := range []string{"ReadInt64", "ReadInt32", "ReadInt", "ReadUint64", "ReadUint32", "ReadUint", "DecodeInt64", "DecodeInt32",
			"DecodeInt", "DecodeUint64", "DecodeUint32", "DecodeUint", "ReadFloat64", "DecodeFloat64"} {
			run(fn, []byte(s), nil, nil, 0, 0)
		}
	}
	floats := []string{"1", "0.5", "1e22", "1e23", "123456789012345678", "0.1", "3.141592653589793", "1.7976931348623157e308", "5e-324",
		"2.2250738585072011e-308", "9007199254740993", "1.00000000000000011102230246251565404236316680908203125",
		"1.00000000000000011102230246251565404236316680908203124", "8.98846567431158e307", "12345678901234567890123",
		"0.000000000000000000000000000000000000000000001", "1e-400", "-0.0", "6.02214076e23",
		"2.4703282292062327208828439643411068618252990130716238221279284125033775363510437593264991818081799618989828234772285886546332835517796989819938739800539093906315035659515570226392290858392449105184435931802849936536152500319370457678249219365623669863658480757001585769269903706311928279558551332927834338409351978015531246597263579574622766465272827220056374006485499977096599470454020828166226237857393450736339007967761930577506740176324673600968951340535537458516661134223766678604162159680461914467291840300530057530849048765391711386591646239524912623653881879636239373280423891018672348497668235089863388587925628302755995657524455507255189313690836254779186948667994968324049705821028513185451396213837722826145437693412532098591327667236328125e-324"}
	g := &docGen{rng: c.rng}
	nf := 300
	if c.thorough() {
		nf = 20000
	}
	for i := 0; i < nf; i++ {
		floats = append(floats, string(g.num(nil)))
	}
	for _, s := range floats {
		run("ReadFloat64", []byte(s), nil, nil, 0, 0)
		run("DecodeFloat64", []byte(" "+s+","), nil, nil, 0, 0)
	}
	for _, s := range []string{"true", "false", " true", "false,", "null", " null ", "nullx"} {
		for _, fn := range []string{"ReadBool", "DecodeBool", "ReadNull", "NextToken", "NextTokenType", "DecodeInt64", "DecodeFloat64", "DecodeUint32",
			"DecodeInt32", "DecodeInt", "DecodeUint64", "DecodeUint"} {
			run(fn, []byte(s), nil, nil, 0, 0)
		}
	}
	for _, s := range []string{"[", " {", "\"x\"", "\n\t,", ":", "5", "-", "]", "}"} {
		run("NextToken", []byte(s), nil, nil, 0, 0)
		run("NextTokenType", []byte(s), nil, nil, 0, 0)
	}
	// strings: destination with spare capacity >= input length
	strs := []string{`""`, `"abc"`, `"a\nb"`, `"é€"`, `"😀"`, `"\ud800"`, `" \\ \" \/ \b \f \r \t "`, "\"\xff\xfe\"",
		`"` + strings.Repeat("x", 1000) + `"`, `"` + strings.Repeat(`\n`, 500) + `"`, `"` + strings.Repeat(`A`, 300) + `"`,
		`"` + strings.Repeat("y", 200) + `\n` + strings.Repeat("z", 200) + `"`}
	ns := 200
	if c.thorough() {
		ns = 12000
	}
	g.maxStr, g.hiBytes = 30, true
	for i := 0; i < ns; i++ {
		strs = append(strs, string(g.str(nil)))
	}
	for _, s := range strs {
		d := []byte(s)
		for _, pre := range []int{0, 3} {
			for _, slack := range []int{0, 1, 17} {
				run("ReadStringBytes", d, nil, nil, pre, pre+len(d)+slack)
				run("UnescapeStringContent", d[1:len(d)-1], nil, nil, pre, pre+len(d)-2+slack)
			}
		}
		run("ReadStringBytes", append([]byte(" \n"), d...), nil, nil, 0, len(d)+2)
	}
	// skipping, validation and traversal with a buffer warmed on a document at least as deep
	type dcase struct {
		segs []seg
		warm []seg
	}
	var docs []dcase
	for _, n := range []int{1, 2, 10, 100, 1000, 9999} {
		docs = append(docs,
			dcase{nestSegs("[", "1", "]", n), nestSegs("[", "", "]", n)},
			dcase{nestSegs(`{"a":`, `"x\ny"`, "}", n), nestSegs("[", "", "]", n)},
			dcase{nestSegs(`[{"k":`, "null", "}]", n/2+1), nestSegs("[", "", "]", 2*(n/2+1))},
			dcase{nestSegs("[", "1", "]", n), nestSegs(`{"a":`, "1", "}", n+7)},
		)
	}
	nd := 150
	if c.thorough() {
		nd = 10000
	}
	for i := 0; i < nd; i++ {
		dg := &docGen{rng: c.rng, maxDepth: 1 + c.rng.Intn(7), maxWidth: 1 + c.rng.Intn(5), wsProb: 0.2, maxStr: 8, hiBytes: true}
		d := dg.container("[{"[c.rng.Intn(2)])
		docs = append(docs, dcase{[]seg{{d, 1}}, nestSegs("[", "", "]", 8+c.rng.Intn(3))})
	}
	for di, dc := range docs {
		d := expandSegs(dc.segs)
		for _, fn := range []string{"SkipValue", "SkipValueFast", "Valid"} {
			run(fn, d, dc.segs, dc.warm, 0, 0)
			if di%2 == 0 {
				setCurrent("alloc between " + fn)
				runAlloc(sw, j, allocCase{fn: fn, data: d, segs: dc.segs, warm: dc.warm, between: true}, c.st)
			}
		}
		// the Buffer warmed by *another* function on the very same document (what each function leaves in the
		// Buffer differs: a traversal handles the top level without a push, SkipValueFast counts one kind of bracket)
		if di%3 == 0 {
			fns := []string{"SkipValue", "SkipValueFast", "Valid"}
			if firstNonWS(d) == '[' {
				fns = append(fns, "HandleArrayValues0")
			} else if firstNonWS(d) == '{' {
				fns = append(fns, "HandleObjectValues0")
			}
			for _, wf := range fns {
				for _, fn := range fns {
					if wf != fn {
						setCurrent("alloc cross " + wf + " " + fn)
						runAlloc(sw, j, allocCase{fn: fn, data: d, segs: dc.segs, warm: dc.segs, warmFn: wf}, c.st)
					}
				}
			}
		}
		f := firstNonWS(d)
		if f == '[' {
			run("HandleArrayValues0", d, dc.segs, dc.warm, 0, 0)
			run("HandleArrayValues1", d, dc.segs, dc.warm, 0, 0)
		} else if f == '{' {
			run("HandleObjectValues0", d, dc.segs, dc.warm, 0, 0)
			run("HandleObjectValues1", d, dc.segs, dc.warm, 0, 0)
		}
	}
}

// singleShotMallocs counts the heap allocations of one call of f (GOMAXPROCS pinned to 1 like AllocsPerRun).
func singleShotMallocs(f func()) uint64 {
	defer runtime.GOMAXPROCS(runtime.GOMAXPROCS(1))
	var a, b runtime.MemStats
	runtime.ReadMemStats(&a)
	f()
	runtime.ReadMemStats(&b)
	return b.Mallocs - a.Mallocs
}

// --------------------------------------------------------------------- C20
func runMemScale(j *jb, sh memShape, fn memFn, scales []int) {
	j.reset()
	j.raw(`{"op":"memscale","shape":`)
	j.str(sh.name)
	j.raw(`,"fn":`)
	j.str(fn.name)
	j.raw(`,"points":[`)
	for i, n := range scales {
		segs := sh.mk(n)
		d := expandSegs(segs)
		b := measureBytes(func() { fn.run(d) })
		if i > 0 {
			j.comma()
		}
		j.raw(`{"n":`)
		j.int(n)
		j.raw(`,"segs":`)
		j.segs(segs)
		j.raw(`,"bytes16":`)
		j.int(int(b / 16))
		j.raw(`}`)
		if b > 3<<30 {
			break // already hopeless; do not burn minutes on the larger scales
		}
	}
	j.raw(`]}`)
}

func measureBytes(f func()) uint64 {
	var a, b runtime.MemStats
	runtime.GC()
	runtime.ReadMemStats(&a)
	f()
	runtime.ReadMemStats(&b)
	return b.TotalAlloc - a.TotalAlloc
}

type memShape struct {
	name string
	mk   func(n int) []seg
}

func objWithKeys(n int) []byte {
	var b bytes.Buffer
	b.WriteString("{")
	for i := 0; i < n; i++ {
		if i > 0 {
			b.WriteString(",")
		}
		fmt.Fprintf(&b, `"%d":1`, i)
	}
	b.WriteString("}")
	return b.Bytes()
}

func arrWithElems(n int) []byte {
	return []byte("[" + strings.TrimSuffix(strings.Repeat("1,", n), ",") + "]")
}

// bigThenSmall: a large first child followed by n small later children, in every combination of
// outer container, wrapping of the large child and kind of the small children.
func bigThenSmallShapes() []memShape {
	var out []memShape
	type wrap struct{ name, pre, post string }
	bigs := []struct {
		name string
		mk   func(n int) []byte
	}{{"bigobj", objWithKeys}, {"bigarr", arrWithElems}}
	wraps := []wrap{{"bare", "", ""}, {"in_array", "[", "]"}, {"in_object", `{"w":`, "}"}, {"in_array_in_object", `{"w":[`, "]}"}}
	smalls := []string{"{}", "[]", `{"a":{}}`, `[{}]`, `{"a":[]}`, `{"a":1}`, `[[]]`}
	for _, outer := range []string{"A", "O"} {
		for _, bg := range bigs {
			for _, w := range wraps {
				for si, sm := range smalls {
					if (len(out)+si)%3 != 0 && !(w.name == "in_array" && bg.name == "bigobj") {
						continue // a third of the combinations (all of them for the wrapped big object)
					}
					outer, bg, w, sm := outer, bg, w, sm
					name := "bts_" + outer + "_" + bg.name + "_" + w.name + "_then_" + sm
					out = append(out, memShape{name, func(n int) []seg {
						first := append(append([]byte(w.pre), bg.mk(n)...), w.post...)
						if outer == "A" {
							return []seg{{[]byte("["), 1}, {first, 1}, {[]byte("," + sm), n}, {[]byte("]"), 1}}
						}
						return []seg{{[]byte(`{"first":`), 1}, {first, 1}, {[]byte(`,"k":` + sm), n}, {[]byte("}"), 1}}
					}})
				}
			}
		}
	}
	return out
}

var memShapes = append(bigThenSmallShapes(), []memShape{
	{"ints", func(n int) []seg { return []seg{{[]byte("["), 1}, {[]byte("1,"), n}, {[]byte("1]"), 1}} }},
	{"empty_arrays", func(n int) []seg { return []seg{{[]byte("["), 1}, {[]byte("[],"), n}, {[]byte("[]]"), 1}} }},
	{"empty_objects", func(n int) []seg { return []seg{{[]byte("["), 1}, {[]byte("{},"), n}, {[]byte("{}]"), 1}} }},
	{"small_objects", func(n int) []seg { return []seg{{[]byte("["), 1}, {[]byte(`{"a":1},`), n}, {[]byte("{}]"), 1}} }},
	{"strings", func(n int) []seg { return []seg{{[]byte("["), 1}, {[]byte(`"ab",`), n}, {[]byte(`""]`), 1}} }},
	{"escaped_strings_wide", func(n int) []seg { return []seg{{[]byte("["), 1}, {[]byte(`"\n",`), n}, {[]byte(`""]`), 1}} }},
	{"nested_arrays", func(n int) []seg { return nestSegs("[", "", "]", n) }},
	{"nested_objects", func(n int) []seg { return nestSegs(`{"a":`, "1", "}", n) }},
	{"big_object_then_small_siblings", func(n int) []seg {
		return []seg{{[]byte("["), 1}, {objWithKeys(n), 1}, {[]byte(",{}"), n}, {[]byte("]"), 1}}
	}},
	{"big_object_then_small_children", func(n int) []seg {
		return []seg{{[]byte(`{"big":`), 1}, {objWithKeys(n), 1}, {[]byte(`,"k":{}`), n}, {[]byte("}"), 1}}
	}},
	{"big_array_then_small_siblings", func(n int) []seg {
		return []seg{{[]byte("["), 1}, {arrWithElems(n), 1}, {[]byte(",[]"), n}, {[]byte("]"), 1}}
	}},
	{"alternating_big_small_objects", func(n int) []seg {
		return []seg{{[]byte("["), 1}, {append(objWithKeys(40), []byte(",{},")...), n / 40}, {[]byte("{}]"), 1}}
	}},
	{"escapes_at_every_nesting_level", func(n int) []seg { return nestSegs(`["\n",`, "1", "]", n) }},
	{"escaped_keys_at_every_level", func(n int) []seg { return nestSegs(`{"\n":`, "1", "}", n) }},
	{"escape_then_long_tail", func(n int) []seg { return []seg{{[]byte(`["\n",`), 1}, {[]byte(`"abcdefgh",`), n}, {[]byte(`1]`), 1}} }},
	{"long_string_of_unicode_escapes", func(n int) []seg { return []seg{{[]byte(`["`), 1}, {[]byte(`\u00e9`), n}, {[]byte(`"]`), 1}} }},
	{"long_string_of_surrogate_pairs", func(n int) []seg { return []seg{{[]byte(`"`), 1}, {[]byte(`\ud83d\ude00`), n}, {[]byte(`"`), 1}} }},
	{"long_string_of_simple_escapes", func(n int) []seg { return []seg{{[]byte(`{"k":"`), 1}, {[]byte(`\n`), n}, {[]byte(`"}`), 1}} }},
	{"long_plain_string_after_escape", func(n int) []seg { return []seg{{[]byte(`["\t`), 1}, {[]byte(`abcdefgh`), n}, {[]byte(`"]`), 1}} }},
	{"long_escaped_key", func(n int) []seg { return []seg{{[]byte(`{"`), 1}, {[]byte(`\u0041b`), n}, {[]byte(`":1}`), 1}} }},
	{"many_numbers_long_mantissa", func(n int) []seg {
		return []seg{{[]byte("["), 1}, {[]byte("1.00000000000000011102230246251565404236316680908203125,"), n}, {[]byte("0]"), 1}}
	}},
	{"unicode_escapes_at_every_nesting_level", func(n int) []seg { return nestSegs(`["\u00e9",`, "1", "]", n) }},
	{"unicode_escaped_keys_at_every_level", func(n int) []seg { return nestSegs(`{"\u00e9":`, "1", "}", n) }},
	{"surrogate_pairs_at_every_nesting_level", func(n int) []seg { return nestSegs(`{"k":["\ud83d\ude00",`, "1", "]}", n) }},
	{"escapes_many_unicode_escaped_strings", func(n int) []seg { return []seg{{[]byte("["), 1}, {[]byte(`"\u00e9",`), n}, {[]byte(`1]`), 1}} }},
	{"escapes_many_unicode_escaped_keys", func(n int) []seg {
		return []seg{{[]byte("{"), 1}, {[]byte(`"\u00e9":"x\u0041",`), n}, {[]byte(`"z":1}`), 1}}
	}},
	{"escapes_wide_in_objects", func(n int) []seg { return []seg{{[]byte("{"), 1}, {[]byte(`"\t":"\n",`), n}, {[]byte(`"z":1}`), 1}} }},
}...)

type memFn struct {
	name string
	run  func(d []byte)
}

var memFns = []memFn{
	{"ReadValue", func(d []byte) { rjson.ReadValue(d) }},
	{"SkipValue(nil)", func(d []byte) { rjson.SkipValue(d, nil) }},
	{"Valid(nil)", func(d []byte) { rjson.Valid(d, nil) }},
	{"SkipValueFast(nil)", func(d []byte) { rjson.SkipValueFast(d, nil) }},
	{"HandleArrayValues0(nil)", func(d []byte) { rjson.HandleArrayValues(d, zeroArr, nil) }},
	{"HandleObjectValues0(nil)", func(d []byte) { rjson.HandleObjectValues(d, zeroObj, nil) }},
	{"ReadString(nil)", func(d []byte) { rjson.ReadString(d, nil) }},
	{"ReadStringBytes(nil)", func(d []byte) { rjson.ReadStringBytes(d, nil) }},
}

func genMemC20(c *genCtx, sw *shardWriter, j *jb) {
	old := runtime.GOMAXPROCS(4) // sync.Pool's per-P arrays make the per-reader constant depend on GOMAXPROCS
	defer runtime.GOMAXPROCS(old)
	scales := []int{250, 1000, 4000}
	if c.thorough() {
		scales = []int{500, 2000, 8000, 32000, 128000}
	}
	for _, sh := range memShapes {
		for fi, fn := range memFns {
			isStr := strings.HasPrefix(fn.name, "ReadString")
			if isStr != (sh.name == "long_string_of_surrogate_pairs") && (isStr || sh.name == "long_string_of_surrogate_pairs") {
				continue // the string readers read the bare-string shape; the other functions everything else
			}
			if fi > 0 && !isStr && !(strings.HasPrefix(sh.name, "nested") || sh.name == "ints" || strings.HasPrefix(sh.name, "escapes_at") || strings.HasPrefix(sh.name, "long_") ||
				strings.HasPrefix(sh.name, "unicode_esc") || strings.HasPrefix(sh.name, "surrogate_pairs_at")) {
				continue
			}
			setCurrent("mem " + sh.name + " " + fn.name)
			runMemScale(j, sh, fn, scales)
			sw.write(j.b)
			c.st.noteKey("memscale"+sh.name+fn.name, true)
		}
	}
	// histories on one reader / one buffer: a large document, then many small ones (succeeding or failing)
	m := 2000
	if c.thorough() {
		m = 60000
	}
	for _, h := range memHists() {
		setCurrent("memhist " + h.name)
		runMemHist(j, h, m)
		sw.write(j.b)
		c.st.noteKey("memhist"+h.name, true)
	}
}

type memHist struct {
	name  string
	first []byte
	small []byte
	fn    func(r *rjson.ValueReader, b *rjson.Buffer, d []byte)
}

func memHists() []memHist {
	rv := func(r *rjson.ValueReader, b *rjson.Buffer, d []byte) { r.ReadValue(d) }
	ro := func(r *rjson.ValueReader, b *rjson.Buffer, d []byte) { r.ReadObject(d) }
	ra := func(r *rjson.ValueReader, b *rjson.Buffer, d []byte) { r.ReadArray(d) }
	sk := func(r *rjson.ValueReader, b *rjson.Buffer, d []byte) { rjson.SkipValue(d, b) }
	bigObj := objWithKeys(20000)
	bigArr := arrWithElems(20000)
	var combos []memHist
	fns := []struct {
		name string
		fn   func(r *rjson.ValueReader, b *rjson.Buffer, d []byte)
	}{{"ReadValue", rv}, {"ReadObject", ro}, {"ReadArray", ra}}
	firsts := []struct {
		name string
		doc  []byte
	}{{"array_of_big_object", append(append([]byte("["), bigObj...), ']')}, {"object_of_big_array", append(append([]byte(`{"a":`), bigArr...), '}')},
		{"array_of_big_array", append(append([]byte("["), bigArr...), ']')}, {"object_of_big_object", append(append([]byte(`{"a":`), bigObj...), '}')}}
	smalls := []string{`{}`, `[]`, `{"a":{"b":1}}`, `[[1]]`, `{"a":[1]}`, `[{"a":1}]`, `{"a":{}}`, `[{}]`, `{"a":{"b":1},"c":}`, `[[1],`}
	for _, f1 := range firsts {
		for fi, f := range fns {
			for si, sm := range smalls {
				if (fi+si)%2 == 0 {
					f1, f, sm := f1, f, sm
					first := func(r *rjson.ValueReader, b *rjson.Buffer, d []byte) {
						if bytes.Equal(d, f1.doc) {
							r.ReadValue(d)
							r.ReadArray(d)
							r.ReadObject(d)
							return
						}
						f.fn(r, b, d)
					}
					combos = append(combos, memHist{f1.name + "_then_" + sm + "(" + f.name + ")", f1.doc, []byte(sm), first})
				}
			}
		}
	}
	return append(combos, []memHist{
		{"big_object_then_small_ok_objects(ReadValue)", bigObj, []byte(`{"a":1}`), rv},
		{"big_object_then_small_failing_objects(ReadValue)", bigObj, []byte(`{"a":1,}`), rv},
		{"big_object_then_small_failing_objects(ReadObject)", bigObj, []byte(`{"a":}`), ro},
		{"big_object_then_empty_failing_objects(ReadObject)", bigObj, []byte(`{`), ro},
		{"big_array_then_small_failing_arrays(ReadArray)", bigArr, []byte(`[1,`), ra},
		{"big_array_then_small_failing_arrays(ReadValue)", bigArr, []byte(`[1,2,]`), rv},
		{"nested_big_then_small_failing(ReadValue)", append(append([]byte(`{"a":[`), bigObj...), []byte(`]}`)...), []byte(`{"a":[{"b":1,}]}`), rv},
		{"deep_document_then_shallow(SkipValue)", expandSegs(nestSegs("[", "", "]", 9000)), []byte(`[1,[2]]`), sk},
		{"escaped_long_string_then_small_strings(ReadValue)", []byte(`["\n` + strings.Repeat("x", 100000) + `"]`), []byte(`["\n"]`), rv},
	}...)
}

func runMemHist(j *jb, h memHist, m int) {
	var rd rjson.ValueReader
	var bf rjson.Buffer
	j.reset()
	j.raw(`{"op":"memhist","name":`)
	j.str(h.name)
	j.raw(`,"m":`)
	j.int(m)
	j.raw(`,"steps":[`)
	b0 := measureBytes(func() { h.fn(&rd, &bf, h.first) })
	j.ints([]int{len(h.first), int(b0 / 16), 1})
	// the small documents are measured in one block of m calls
	bs := measureBytes(func() {
		for i := 0; i < m; i++ {
			h.fn(&rd, &bf, h.small)
		}
	})
	j.comma()
	j.ints([]int{len(h.small) * m, int(bs / 16), m})
	j.raw(`]}`)
}

func genAlloc(c *genCtx) error {
	var j jb
	if c.want("zero") {
		genAllocC19(c, c.sw, &j)
	}
	if c.want("mem") {
		genMemC20(c, c.sw, &j)
	}
	return nil
}

func init() {
	families["alloc"] = genAlloc
	replayers["memscale"] = func(ev map[string]interface{}) ([]byte, error) {
		old := runtime.GOMAXPROCS(4)
		defer runtime.GOMAXPROCS(old)
		var j jb
		var scales []int
		for _, p := range ev["points"].([]interface{}) {
			scales = append(scales, int(p.(map[string]interface{})["n"].(float64)))
		}
		for _, sh := range memShapes {
			for _, fn := range memFns {
				if sh.name == ev["shape"].(string) && fn.name == ev["fn"].(string) {
					// what pooled child readers remember depends on when the collector empties the pools:
					// the measurement is repeated; every repetition is a real execution and all are validated
					var out []byte
					for rep := 0; rep < 3; rep++ {
						runMemScale(&j, sh, fn, scales)
						if rep > 0 {
							out = append(out, '\n')
						}
						out = append(out, j.b...)
					}
					return out, nil
				}
			}
		}
		return nil, fmt.Errorf("unknown shape/fn")
	}
	replayers["memhist"] = func(ev map[string]interface{}) ([]byte, error) {
		old := runtime.GOMAXPROCS(4)
		defer runtime.GOMAXPROCS(old)
		var j jb
		for _, h := range memHists() {
			if h.name == ev["name"].(string) {
				var out []byte
				for rep := 0; rep < 3; rep++ {
					runMemHist(&j, h, int(ev["m"].(float64)))
					if rep > 0 {
						out = append(out, '\n')
					}
					out = append(out, j.b...)
				}
				return out, nil
			}
		}
		return nil, fmt.Errorf("unknown history")
	}
	replayers["alloc"] = func(ev map[string]interface{}) ([]byte, error) {
		var j jb
		d, segs := stepInput(ev)
		var warm []seg
		if w, ok := ev["warm"].([]interface{}); ok && len(w) > 0 {
			for _, x := range w {
				p := x.([]interface{})
				warm = append(warm, seg{anyBytes(p[0]), int(p[1].(float64))})
			}
		}
		btw, _ := ev["between"].(float64)
		gcf, _ := ev["gc"].(float64)
		wf, _ := ev["warmfn"].(string)
		runAlloc(nil, &j, allocCase{warmFn: wf, fn: ev["fn"].(string), data: d, segs: segs, warm: warm, pre: int(ev["dstlen"].(float64)), cap: int(ev["dstcap"].(float64)), between: btw == 1, gc: gcf == 1}, newStats())
		return append([]byte{}, j.b...), nil
	}
}
