package main

// Family "handlers": HandleArrayValues / HandleObjectValues with scripted,
// recording handlers (C07, C09, C10).

import (
	"bytes"
	"encoding/json"
	"errors"
	"fmt"
	"math"
	"math/rand"
	"strings"

	"github.com/willabides/rjson"
)

type sentinel struct{ k int }

func (s *sentinel) Error() string { return fmt.Sprintf("handler sentinel %d", s.k) }

var sentinels = func() []*sentinel {
	out := make([]*sentinel, 128)
	for i := range out {
		out[i] = &sentinel{i}
	}
	return out
}()

const ownReadFailed = 99 // the sentinel a well-behaved handler returns when its own read fails

// answer modes
const (
	modeZero  = 0
	modeExact = 1
	modeRaw   = 2
	// the handler does what the documentation suggests - it calls SkipValue (3), SkipValueFast (4) or ReadValue (5)
	// on its member and returns that call's offset and error as they are: the error is then one of the library's own
	modeOwnSkip = 3
	modeOwnFast = 4
	modeOwnRead = 5
)

const ownLibErr = 98 // the id under which "the error the handler's own call returned" is recorded

type answer struct {
	mode int
	pp   int // raw answer (modeRaw)
	err  int // sentinel id, 0 = none
}

type callRec struct {
	off, kf, kt int
	pp          int
	err         int
	mode        int
}

type scripted struct {
	doc    []byte
	script []answer
	deflt  answer
	calls  []callRec
	inner  func(data []byte) // optional re-entrant action
	ownErr error             // the library error the handler propagated (modes 3..5)
}

// exactEnd finds the end of the first value of data with encoding/json (an
// implementation independent of rjson); the specification re-derives it.
func exactEnd(data []byte) (int, bool) {
	dec := json.NewDecoder(bytes.NewReader(data))
	var raw json.RawMessage
	if err := dec.Decode(&raw); err != nil {
		return 0, false
	}
	return int(dec.InputOffset()), true
}

func (s *scripted) answerFor(data []byte) (answer, int) {
	a := s.deflt
	if len(s.calls) < len(s.script) {
		a = s.script[len(s.calls)]
	}
	pp := 0
	switch a.mode {
	case modeExact:
		e, ok := exactEnd(data)
		if !ok {
			a.err = ownReadFailed
		} else {
			pp = e
		}
	case modeRaw:
		pp = a.pp
	}
	return a, pp
}

func (s *scripted) handle(key, data []byte, isObj bool) (int, error) {
	if s.inner != nil {
		s.inner(data)
	}
	a, pp := s.answerFor(data)
	if a.mode >= modeOwnSkip && a.mode <= modeOwnRead {
		var err error
		switch a.mode {
		case modeOwnSkip:
			pp, err = rjson.SkipValue(data, nil)
		case modeOwnFast:
			pp, err = rjson.SkipValueFast(data, nil)
		default:
			_, pp, err = rjson.ReadValue(data)
		}
		rec := callRec{off: cap(s.doc) - cap(data), pp: pp, mode: a.mode}
		if isObj {
			rec.kf = cap(s.doc) - cap(key)
			rec.kt = rec.kf + len(key)
		}
		if err != nil {
			rec.err = ownLibErr
			s.ownErr = err
		}
		s.calls = append(s.calls, rec)
		return pp, err
	}
	rec := callRec{off: cap(s.doc) - cap(data), pp: pp, err: a.err, mode: a.mode}
	if isObj {
		rec.kf = cap(s.doc) - cap(key)
		rec.kt = rec.kf + len(key)
	}
	s.calls = append(s.calls, rec)
	if a.err != 0 {
		return pp, sentinels[a.err]
	}
	return pp, nil
}

func (s *scripted) HandleArrayValue(data []byte) (int, error) { return s.handle(nil, data, false) }
func (s *scripted) HandleObjectValue(key, data []byte) (int, error) {
	return s.handle(key, data, true)
}

func errID(err error) int {
	if err == nil {
		return 0
	}
	for k, s := range sentinels {
		if err == error(s) {
			return k
		}
	}
	var s *sentinel
	if errors.As(err, &s) {
		return -2
	}
	return -1
}

func sameErr(a, b error) (same bool) {
	defer func() {
		if recover() != nil {
			same = false
		}
	}()
	return a == b
}

func clsOf(pp int) (int, int) {
	if pp >= 1<<30 {
		return 1, int(math.MaxInt - pp)
	}
	if pp <= -(1 << 30) {
		return -1, int(pp - math.MinInt)
	}
	return 0, pp
}

// handleWarm, when set, makes runHandle use a Buffer of its own that was first used by function fn (1 Valid, 2 SkipValue,
// 3 SkipValueFast, 4 HandleArrayValues with a handler answering 0) on an array nested L deep; it is logged, so that
// replay recreates the same Buffer.
var handleWarm [2]int

func warmedBuffer(fn, l int) *rjson.Buffer {
	b := &rjson.Buffer{}
	d := expandSegs([]seg{{[]byte("["), l}, {[]byte("1"), 1}, {[]byte("]"), l}})
	switch fn {
	case 1:
		rjson.Valid(d, b)
	case 2:
		rjson.SkipValue(d, b)
	case 3:
		rjson.SkipValueFast(d, b)
	case 4:
		rjson.HandleArrayValues(d, zeroArr, b)
	}
	return b
}

// runHandle executes one traversal and writes the event.
func runHandle(sw *shardWriter, j *jb, kind byte, data []byte, script []answer, deflt answer, buf *rjson.Buffer, st *genStats, tag string) {
	doc := relayoutCopy(data)
	orig := append([]byte{}, doc...)
	h := &scripted{doc: doc, script: script, deflt: deflt}
	var p int
	var err error
	panicked := 0
	warm := handleWarm
	if warm[0] != 0 {
		buf = warmedBuffer(warm[0], warm[1])
	}
	func() {
		defer func() {
			if r := recover(); r != nil {
				panicked = 1
			}
		}()
		if kind == 'A' {
			p, err = rjson.HandleArrayValues(doc, h, buf)
		} else {
			p, err = rjson.HandleObjectValues(doc, h, buf)
		}
	}()
	j.reset()
	j.raw(`{"op":"handle","kind":`)
	j.int(int(kind))
	j.raw(`,"in":`)
	j.bytes(data)
	j.raw(`,"buf":`)
	j.b01(buf != nil)
	j.raw(`,"warm":`)
	j.ints(warm[:])
	j.raw(`,"calls":[`)
	for i, c := range h.calls {
		if i > 0 {
			j.comma()
		}
		cls, v := clsOf(c.pp)
		j.ints([]int{c.off, c.kf, c.kt, cls, v, c.err, c.mode})
	}
	j.raw(`],"res":`)
	rp := p
	if panicked == 1 {
		rp = -1
	}
	if cls, _ := clsOf(rp); cls != 0 {
		rp = -2 // an absurd offset; only meaningful together with err
	}
	eid := errID(err)
	if h.ownErr != nil && sameErr(err, h.ownErr) {
		eid = ownLibErr // the identical value the handler's own call produced
	}
	j.ints([]int{b2i(err == nil && panicked == 0), rp, eid, panicked})
	j.raw(`,"unch":`)
	j.b01(bytes.Equal(orig, doc))
	j.raw(`}`)
	if sw != nil {
		sw.write(j.b)
	}
	st.noteKey(tag+string(kind)+string(data)+fmt.Sprint(script, deflt), len(h.calls) > 0)
	if panicked == 1 {
		st.Panics++
	}
}

// hostile answers: the abstract domain of DESIGN §3.9 mapped to concrete ints
func hostileAnswers(rest int) []int {
	return []int{-1, -2, math.MinInt, math.MinInt + 1, -(1 << 31), 1, 2, rest - 1, rest, rest + 1, rest + 2, 2 * rest,
		1 << 31, 1 << 32, math.MaxInt, math.MaxInt - 1, math.MaxInt - 2, math.MaxInt - 3, math.MaxInt - 4,
		math.MaxInt/2 + 1, math.MaxInt / 2}
}

func firstNonWS(d []byte) byte {
	for _, c := range d {
		if c != ' ' && c != '\t' && c != '\r' && c != '\n' {
			return c
		}
	}
	return 0
}

func genHandlers(c *genCtx) error {
	var j jb
	used := &rjson.Buffer{}
	zero := answer{mode: modeZero}
	exact := answer{mode: modeExact}
	// all four basic strategies on a document
	basic := func(kind byte, d []byte, tag string) {
		runHandle(c.sw, &j, kind, d, nil, zero, nil, c.st, tag)
		runHandle(c.sw, &j, kind, d, nil, exact, used, c.st, tag)
	}
	if c.want("sweep") && c.statesPath != "" {
		ss, err := loadStates(c.statesPath)
		if err != nil {
			return err
		}
		setCurrent("handlers sweep")
		mem := classMembers(ss)
		conts := [][]byte{[]byte("5"), []byte("0"), []byte(`"`)}
		if c.thorough() {
			conts = append(conts, []byte(`n"`), []byte("00"), []byte(`":0`), []byte("e"), []byte("1"))
		}
		parallelBases(sweepBases(ss, true, false, c.rng), c.st, c.rng, func(base sweepBase, rng *rand.Rand, st *genStats, w *sweepWorker) {
			s := base.st
			if s.Out != "run" {
				return
			}
			f := firstNonWS(base.pre)
			var kinds []byte
			switch {
			case f == '[':
				kinds = []byte{'A'}
			case f == '{':
				kinds = []byte{'O'}
			case s.D == 0 && !base.edge:
				kinds = []byte{'A', 'O'} // top-level states: null, other types, whitespace
			default:
				return
			}
			// (all 256 byte values per state are tried by the parse family; here three members of every class)
			o := sweepOpts{allBytes: false, stop: !base.edge, rejectConts: conts, rejectAll: false}
			if base.edge && !c.thorough() {
				o.rejectConts = conts[:1] // every transition is taken; fewer continuations and strategies per input
			}
			n := 0
			forSweepInputs(ss, mem, base, o, rng, func(in []byte, viable bool) {
				for _, kind := range kinds {
					n++
					runHandle(c.sw, &w.j, kind, in, nil, zero, nil, st, "sw")
					if !base.edge || c.thorough() || n%3 == 0 {
						runHandle(c.sw, &w.j, kind, in, nil, exact, &w.used, st, "sw")
					}
					if n%4 == 1 {
						// a handler that returns the offset and the error of its own call on the member
						runHandle(c.sw, &w.j, kind, in, nil, answer{mode: modeOwnSkip + (n/4)%3}, nil, st, "sw")
					}
					if viable && n%8 == 0 {
						// mixed strategies on (possibly completed) documents
						runHandle(c.sw, &w.j, kind, in, []answer{zero, exact, zero, exact}, exact, nil, st, "sw")
						runHandle(c.sw, &w.j, kind, in, []answer{exact, zero, exact, zero}, zero, &w.used, st, "sw")
					}
				}
			})
		})
	}
	// depth: well-formed documents nested deep but within 10,000 levels, traversed with a nil Buffer, a new one, and
	// Buffers that another function left behind after a shallow or a deep document (stack growth policies start from
	// what they find)
	if c.want("depth") {
		setCurrent("handlers depth")
		type shape struct{ open, bottom, close string }
		for _, n := range []int{6200, 8200, 10000} {
			for _, sh := range []shape{{"[", "1", "]"}, {`{"a":`, `"s"`, "}"}, {`[{"a":`, "null", "}]"}} {
				k := n / len(strings.ReplaceAll(strings.ReplaceAll(sh.close, " ", ""), ",", ""))
				d := expandSegs([]seg{{[]byte(sh.open), k}, {[]byte(sh.bottom), 1}, {[]byte(sh.close), k}})
				kind := byte('A')
				if d[0] == '{' {
					kind = 'O'
				}
				type bw struct {
					buf  *rjson.Buffer
					warm [2]int
				}
				bufs := []bw{{nil, [2]int{}}, {&rjson.Buffer{}, [2]int{}}}
				for fn := 1; fn <= 4; fn++ {
					for _, l := range []int{1, 2, 3, 64, 625, 5000} {
						bufs = append(bufs, bw{nil, [2]int{fn, l}})
					}
				}
				for _, b := range bufs {
					handleWarm = b.warm
					runHandle(c.sw, &j, kind, d, nil, zero, b.buf, c.st, "depth")
					runHandle(c.sw, &j, kind, d, nil, exact, b.buf, c.st, "depth")
				}
				handleWarm = [2]int{}
			}
		}
	}
	// documents: random containers, corpus, walks
	var docs [][]byte
	if c.want("random") {
		n := 1500
		if c.thorough() {
			n = 1500
		}
		for i := 0; i < n; i++ {
			g := &docGen{rng: c.rng, maxDepth: 1 + c.rng.Intn(4), maxWidth: 1 + c.rng.Intn(6),
				wsProb: []float64{0, 0.2, 0.5}[c.rng.Intn(3)], maxStr: 1 + c.rng.Intn(8), hiBytes: c.rng.Intn(2) == 0}
			docs = append(docs, g.container("[{"[c.rng.Intn(2)]))
		}
		docs = append(docs, []byte("null"), []byte(" null "), []byte("nul"), []byte("[]"), []byte("{}"), []byte(` ["a"]`),
			[]byte(`[1,"a"]`), []byte(`{"a":"b"}`), []byte(`{"a":[1]}`), []byte(`[[1],{"a":2},"s",3,null,true]`))
	}
	if c.want("walks") {
		docs = append(docs, loadWalks(c.walksPath)...)
	}
	if c.want("corpus") {
		nCorpus := 0
		for _, d := range corpusFiles(c.tier, c.rng) {
			if f := firstNonWS(d); (f == '[' || f == '{' || f == 'n') && nCorpus < 3000 {
				docs = append(docs, d)
				nCorpus++
			}
		}
	}
	for _, d := range docs {
		setCurrent(fmt.Sprintf("handlers doc %q", trunc(d)))
		kind := byte('A')
		if firstNonWS(d) == '{' {
			kind = 'O'
		}
		variants := [][]byte{d}
		nm := 1
		for k := 0; k < nm; k++ {
			variants = append(variants, mutate(c.rng, d))
		}
		for vi, v := range variants {
			basic(kind, v, "doc")
			if vi == 0 {
				basic('A'+'O'-kind, v, "doc") // the other traversal must refuse it (or accept null)
			}
			// count members with an all-zero pass
			h := &scripted{doc: append([]byte{}, v...), deflt: zero}
			func() {
				defer func() { recover() }()
				if kind == 'A' {
					rjson.HandleArrayValues(h.doc, h, nil)
				} else {
					rjson.HandleObjectValues(h.doc, h, nil)
				}
			}()
			nc := len(h.calls)
			// random well-behaved mixes
			for r := 0; r < 2; r++ {
				sc := make([]answer, nc+1)
				for i := range sc {
					sc[i] = answer{mode: c.rng.Intn(2)}
				}
				runHandle(c.sw, &j, kind, v, sc, zero, used, c.st, "mix")
			}
			if nc > 12 {
				nc = 12
			}
			// an error at every call position k, with every kind of accompanying offset
			for k := 0; k < nc; k++ {
				rest := len(v) - h.calls[k].off
				hs := hostileAnswers(rest)
				acc := []answer{{mode: modeZero, err: 1 + k%90}, {mode: modeExact, err: 1 + k%90},
					{mode: modeRaw, pp: hs[c.rng.Intn(len(hs))], err: 1 + k%90}}
				if c.thorough() {
					for _, hv := range hs {
						acc = append(acc, answer{mode: modeRaw, pp: hv, err: 1 + k%90})
					}
				}
				for _, a := range acc {
					sc := make([]answer, k+1)
					for i := 0; i < k; i++ {
						sc[i] = answer{mode: c.rng.Intn(2)}
					}
					sc[k] = a
					runHandle(c.sw, &j, kind, v, sc, zero, []*rjson.Buffer{nil, used}[c.rng.Intn(2)], c.st, "err")
				}
				// hostile answers without an error at position k
				hv := hs
				if !c.thorough() && vi > 0 {
					hv = []int{hs[c.rng.Intn(len(hs))], hs[c.rng.Intn(len(hs))]}
				}
				for _, x := range hv {
					sc := make([]answer, k+1)
					for i := 0; i < k; i++ {
						sc[i] = answer{mode: c.rng.Intn(2)}
					}
					sc[k] = answer{mode: modeRaw, pp: x}
					runHandle(c.sw, &j, kind, v, sc, zero, []*rjson.Buffer{nil, used}[c.rng.Intn(2)], c.st, "hostile")
				}
				// every offset into the member and a little beyond (mid-token answers)
				if (c.thorough() && k < 6) || k < 3 {
					lim := rest + 2
					if lim > 24 {
						lim = 24
					}
					lo := -h.calls[k].off - 2 // every negative offset that stays inside the document, and a little beyond
					if lo < -40 {
						lo = -40
					}
					for x := lo; x <= lim; x++ {
						sc := make([]answer, k+1)
						sc[k] = answer{mode: modeRaw, pp: x}
						runHandle(c.sw, &j, kind, v, sc, zero, nil, c.st, "mid")
						if x < 0 {
							// the same answer on every later call as well (a handler that keeps pointing backwards)
							runHandle(c.sw, &j, kind, v, sc, answer{mode: modeRaw, pp: x}, nil, c.st, "mid")
						}
					}
				}
			}
		}
	}
	return nil
}

func init() {
	families["handlers"] = genHandlers
	replayers["handle"] = func(ev map[string]interface{}) ([]byte, error) {
		data := anyBytes(ev["in"])
		kind := byte(ev["kind"].(float64))
		var script []answer
		if cs, ok := ev["calls"].([]interface{}); ok {
			for _, c := range cs {
				v := anyInts(c)
				a := answer{mode: v[6], err: v[5]}
				if a.mode == modeRaw {
					switch v[3] {
					case 0:
						a.pp = v[4]
					case 1:
						a.pp = math.MaxInt - v[4]
					default:
						a.pp = math.MinInt + v[4]
					}
				}
				if a.mode == modeExact && a.err == ownReadFailed {
					a.err = 0 // recomputed
				}
				script = append(script, a)
			}
		}
		var j jb
		var buf *rjson.Buffer
		if b, _ := ev["buf"].(float64); b == 1 {
			buf = &rjson.Buffer{}
		}
		handleWarm = [2]int{}
		if w, ok := ev["warm"].([]interface{}); ok && len(w) == 2 {
			handleWarm = [2]int{int(w[0].(float64)), int(w[1].(float64))}
		}
		defer func() { handleWarm = [2]int{} }()
		runHandle(nil, &j, kind, data, script, answer{mode: modeZero}, buf, newStats(), "replay")
		return append([]byte{}, j.b...), nil
	}
}
