package main

// Random well-formed documents (grammar-directed) and mutations of them.
// Generators choose inputs only; every verdict about an input is computed by
// the TLA+ specification during trace validation.

import (
	"fmt"
	"math/rand"
	"strconv"
)

type docGen struct {
	rng      *rand.Rand
	maxDepth int
	maxWidth int
	wsProb   float64
	maxStr   int
	hiBytes  bool // raw bytes >= 0x80 (including invalid UTF-8) inside strings
}

func (g *docGen) ws(out []byte) []byte {
	for g.rng.Float64() < g.wsProb {
		out = append(out, " \t\r\n"[g.rng.Intn(4)])
	}
	return out
}

var simpleEscs = []byte(`"\/bfnrt`)

func (g *docGen) str(out []byte) []byte {
	out = append(out, '"')
	n := g.rng.Intn(g.maxStr + 1)
	for i := 0; i < n; i++ {
		switch r := g.rng.Intn(20); {
		case r < 11:
			c := byte(0x20 + g.rng.Intn(0x5f))
			if c == '"' || c == '\\' {
				c = 'x'
			}
			out = append(out, c)
		case r < 13:
			out = append(out, '\\', simpleEscs[g.rng.Intn(len(simpleEscs))])
		case r < 15:
			out = append(out, fmt.Sprintf("\\u%04x", g.rng.Intn(0x10000))...)
		case r < 16:
			// surrogate material: pairs and broken pairs
			hi := 0xd800 + g.rng.Intn(0x400)
			lo := 0xdc00 + g.rng.Intn(0x400)
			switch g.rng.Intn(4) {
			case 0:
				out = append(out, fmt.Sprintf("\\u%04X\\u%04x", hi, lo)...)
			case 1:
				out = append(out, fmt.Sprintf("\\u%04x", hi)...)
			case 2:
				out = append(out, fmt.Sprintf("\\u%04x\\u%04x", lo, hi)...)
			default:
				out = append(out, fmt.Sprintf("\\u%04x\\n", hi)...)
			}
		case r < 18:
			if g.hiBytes {
				out = append(out, byte(0x80+g.rng.Intn(0x80)))
			} else {
				out = append(out, "é"...)
			}
		case r < 19:
			out = append(out, "[]{},:"[g.rng.Intn(6)])
		default:
			out = append(out, 0x7f)
		}
	}
	return append(out, '"')
}

func (g *docGen) num(out []byte) []byte {
	if g.rng.Intn(3) == 0 {
		out = append(out, '-')
	}
	switch g.rng.Intn(6) {
	case 0:
		out = append(out, '0')
	case 1:
		out = strconv.AppendInt(out, int64(g.rng.Intn(10)), 10)
	case 2:
		out = strconv.AppendUint(out, g.rng.Uint64()>>uint(g.rng.Intn(64)), 10)
	default:
		out = strconv.AppendInt(out, int64(1+g.rng.Intn(99999)), 10)
	}
	if g.rng.Intn(3) == 0 {
		out = append(out, '.')
		n := 1 + g.rng.Intn(6)
		for i := 0; i < n; i++ {
			out = append(out, byte('0'+g.rng.Intn(10)))
		}
	}
	if g.rng.Intn(4) == 0 {
		out = append(out, "eE"[g.rng.Intn(2)])
		switch g.rng.Intn(3) {
		case 0:
			out = append(out, '+')
		case 1:
			out = append(out, '-')
		}
		out = strconv.AppendInt(out, int64(g.rng.Intn(40)), 10)
	}
	return out
}

func (g *docGen) value(out []byte, depth int) []byte {
	r := g.rng.Intn(10)
	if depth >= g.maxDepth && r >= 6 {
		r = g.rng.Intn(6)
	}
	switch r {
	case 0:
		return append(out, "null"...)
	case 1:
		return append(out, "true"...)
	case 2:
		return append(out, "false"...)
	case 3, 4:
		return g.num(out)
	case 5:
		return g.str(out)
	case 6, 7:
		out = append(out, '[')
		out = g.ws(out)
		n := g.rng.Intn(g.maxWidth + 1)
		for i := 0; i < n; i++ {
			if i > 0 {
				out = append(out, ',')
				out = g.ws(out)
			}
			out = g.value(out, depth+1)
			out = g.ws(out)
		}
		return append(out, ']')
	default:
		out = append(out, '{')
		out = g.ws(out)
		n := g.rng.Intn(g.maxWidth + 1)
		for i := 0; i < n; i++ {
			if i > 0 {
				out = append(out, ',')
				out = g.ws(out)
			}
			if g.rng.Intn(4) == 0 {
				out = append(out, `"k"`...) // provoke duplicate keys
			} else {
				out = g.str(out)
			}
			out = g.ws(out)
			out = append(out, ':')
			out = g.ws(out)
			out = g.value(out, depth+1)
			out = g.ws(out)
		}
		return append(out, '}')
	}
}

func (g *docGen) doc() []byte {
	out := g.ws(nil)
	out = g.value(out, 0)
	return g.ws(out)
}

// container forces the top-level value to be an array or an object.
func (g *docGen) container(kind byte) []byte {
	for {
		d := g.doc()
		for _, c := range d {
			if c == ' ' || c == '\t' || c == '\r' || c == '\n' {
				continue
			}
			if c == kind {
				return d
			}
			break
		}
	}
}

var mutBytes = []byte("[]{},:\"\\ \n\t0123456789-+.eEtfnulrsa/\x00\x1f\x7f\x80\xff")

// mutate applies one byte-level mutation.
func mutate(rng *rand.Rand, d []byte) []byte {
	out := append([]byte{}, d...)
	if len(out) == 0 {
		return append(out, mutBytes[rng.Intn(len(mutBytes))])
	}
	i := rng.Intn(len(out))
	switch rng.Intn(5) {
	case 0: // replace
		out[i] = mutBytes[rng.Intn(len(mutBytes))]
	case 1: // insert
		out = append(out[:i], append([]byte{mutBytes[rng.Intn(len(mutBytes))]}, out[i:]...)...)
	case 2: // delete
		out = append(out[:i], out[i+1:]...)
	case 3: // truncate
		out = out[:i]
	default: // random byte value
		out[i] = byte(rng.Intn(256))
	}
	return out
}

// digitRunInputs: numbers whose integer, fraction or exponent part is a run of k digits (k up to 24),
// followed by every byte value, and the same runs with one position replaced by every byte value:
// word-at-a-time digit scanners are wrong only for particular run lengths and alignments.
func digitRunInputs(thorough bool, fn func([]byte)) {
	digits := "123456789012345678901234567890"
	parts := []struct{ pre, post string }{{"", ""}, {"0.", ""}, {"1e", ""}, {"-7.5e+", ""}, {"3.", "e5"}, {"", ".5"}, {"-", ""}}
	for _, pt := range parts {
		for k := 1; k <= 24; k++ {
			run := digits[:k]
			for b := 0; b < 256; b++ {
				fn([]byte(pt.pre + run + pt.post + string([]byte{byte(b)})))
				if thorough || b%4 == 0 || (b >= 0x2f && b <= 0x3f) {
					fn([]byte("[" + pt.pre + run + pt.post + string([]byte{byte(b)}) + "8]"))
				}
			}
			fn([]byte(pt.pre + run + pt.post))
			// one position of the run replaced
			if k == 9 || k == 17 || (thorough && k > 2) {
				for pos := 0; pos < k; pos++ {
					for _, b := range []byte("/:;<=>?@ .eE+-\x00\x10 \x39\x40") {
						x := []byte(run)
						x[pos] = b
						fn([]byte(pt.pre + string(x) + pt.post))
						fn([]byte("{\"a\":[1," + pt.pre + string(x) + pt.post + "]}"))
					}
				}
			}
		}
	}
}

// longNumberInputs: number tokens with one very long digit run (integer part, fraction, exponent, zeros in front of a
// short exponent), bare and inside containers, followed by several bytes.  Length limits, chunked scanners and
// counters that saturate are wrong only beyond some length; the lengths straddle the powers of two up to 2^17.
func longNumberInputs(thorough bool, fn func(segs []seg)) {
	ls := []int{100, 255, 256, 257, 1000, 1023, 1024, 1025, 4095, 4096, 4097, 5000, 16384, 65535, 65536, 65537, 131073}
	if thorough {
		ls = append(ls, 2047, 2048, 2049, 8191, 8192, 8193, 32768, 262145)
	}
	type shape struct {
		pre  string
		unit string
		post string
	}
	shapes := []shape{{"", "7", ""}, {"-1", "0", ""}, {"0.", "3", ""}, {"-12.", "0", "1"}, {"1e", "0", "1"}, {"2E-", "0", "3"},
		{"1.5e+", "0", ""}, {"0.", "0", "1e-5"}, {"9", "9", ".5"}, {"1e", "1", ""}, {"1.", "25", "E+2"}}
	wraps := []struct{ open, close string }{{"", ""}, {"", " "}, {"[", "]"}, {`{"a":`, "}"}, {"[1,", ",2]"}, {`{"a":[{"b":`, `}]}`},
		{"", ","}, {"", "x"}, {"", "."}, {"", "e"}, {"[", ".]"}, {"[", "e]"}, {"[", "-]"}, {" ", "\n"}}
	for _, l := range ls {
		for _, sh := range shapes {
			for wi, w := range wraps {
				if wi > 5 && !thorough && l > 5000 && l != 65536 {
					continue
				}
				fn([]seg{{[]byte(w.open + sh.pre), 1}, {[]byte(sh.unit), l}, {[]byte(sh.post + w.close), 1}})
			}
		}
	}
}

// stringRunInputs: string tokens whose content is a run of k plain bytes followed by one "element" (a byte value, an
// escape, a multi-byte rune, a truncated rune) and a short tail, for every k up to 40 and around the powers of two up
// to 1024 (thorough: 4096): block-at-a-time string scanners, copiers and sanitisers are wrong only for particular run
// lengths, alignments and bytes, and only when an element straddles a block boundary.
// allBytesUpTo bounds the run lengths for which every byte value is tried as the element.
func stringRunInputs(thorough bool, allBytesUpTo int, fn func(tok []byte, k int)) {
	ks := []int{}
	for k := 0; k <= 40; k++ {
		ks = append(ks, k)
	}
	for _, p := range []int{48, 64, 128, 256, 512, 1024} {
		ks = append(ks, p-1, p, p+1)
	}
	if thorough {
		ks = append(ks, 2047, 2048, 2049, 4095, 4096, 4097)
	}
	elems := []string{`\n`, `\"`, `\\`, `\/`, `\\\\`, `\\\\\\`, `\\\"`, `\\\\\"`, `é`, `\u0000`, `😀`, `\ud800`, `\udc00x`, "é", "€", "😀", "\xe2\x82", "\xf0\x9f\x98",
		"\xed\xa0\x80", "\xc0\xaf", "\xff", "\x80", "\x00", "\x1f", "\x7f", " ", "\t", `"`, `\`, `\u12`, `\x`}
	for _, k := range ks {
		run := make([]byte, k)
		for i := range run {
			run[i] = 'a' + byte(i%23)
		}
		emit := func(el []byte) {
			for _, tail := range []string{"", "zz", "0123456789abcdef"} {
				t := append(append(append(append([]byte{'"'}, run...), el...), tail...), '"')
				fn(t, k)
			}
		}
		for _, e := range elems {
			emit([]byte(e))
		}
		if k <= allBytesUpTo {
			for b := 0; b < 256; b++ {
				emit([]byte{byte(b)})
			}
		}
	}
}

// lenientDocs: byte sequences that lenient parsers skip or accept - byte order marks, Unicode spaces and line
// separators, comments, vertical tab / form feed / NUL / SUB, a plus sign - at every position where whitespace may
// stand: at index 0, after and before JSON whitespace, after a minus sign, after the value, between the tokens of
// containers.  RFC 8259 allows none of them anywhere outside strings.
var lenientSeqs = [][]byte{
	{0xef, 0xbb, 0xbf}, {0xef, 0xbb, 0xbf, 0xef, 0xbb, 0xbf}, {0xef, 0xbb}, {0xfe, 0xff}, {0xff, 0xfe}, {0xc2, 0xa0}, {0xc2, 0x85},
	{0xe2, 0x80, 0xa8}, {0xe2, 0x80, 0xa9}, {0xe3, 0x80, 0x80}, {0xe2, 0x80, 0x8b}, {0xe1, 0x9a, 0x80},
	[]byte("//c\n"), []byte("/**/"), []byte("/* c */"), []byte("#c\n"), []byte(`\n`), []byte(` `), {0x0b}, {0x0c}, {0x00}, {0x1a}, {'+'}, {';'},
}

func lenientDocs() [][]byte {
	var out [][]byte
	cat := func(parts ...[]byte) {
		var d []byte
		for _, p := range parts {
			d = append(d, p...)
		}
		out = append(out, d)
	}
	s := func(x string) []byte { return []byte(x) }
	for _, l := range lenientSeqs {
		for _, v := range []string{"12", "-5", "0", "1.5e3", `"s"`, "true", "false", "null", "[1]", `{"a":1}`} {
			cat(l, s(v))
			cat(s(" "), l, s(v))
			cat(l, s(" "), s(v))
			cat(s("\n"), l, s("\t"), s(v), s(" "))
			cat(s(v), l)
			cat(s(v), s(" "), l)
			cat(s(v), l, s("  "))
			if v[0] == '-' {
				cat(s("-"), l, s(v[1:]))
			}
		}
		cat(s("["), l, s("1]"))
		cat(s("[1"), l, s("]"))
		cat(s("[1,"), l, s("2]"))
		cat(s("[1"), l, s(",2]"))
		cat(s("["), l, s("]"))
		cat(s("{"), l, s(`"a":1}`))
		cat(s(`{"a"`), l, s(`:1}`))
		cat(s(`{"a":`), l, s(`1}`))
		cat(s(`{"a":1`), l, s(`}`))
		cat(s(`{"a":1,`), l, s(`"b":2}`))
		cat(s("{"), l, s("}"))
		cat(s(`[[`), l, s(`],{"k":[`), l, s(`]}]`))
	}
	return out
}

// shortStrings calls emit with every string of 1..n bytes over the alphabet (the buffer is reused).
func shortStrings(alpha []byte, n int, emit func(d []byte)) {
	buf := make([]byte, 0, n)
	var rec func()
	rec = func() {
		if len(buf) > 0 {
			emit(buf)
		}
		if len(buf) == n {
			return
		}
		for _, b := range alpha {
			buf = append(buf, b)
			rec()
			buf = buf[:len(buf)-1]
		}
	}
	rec()
}
