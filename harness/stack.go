package main

// Family "stack": the internal stack events of the machines (hook verifStack, build tag verif) recorded
// over histories on one Buffer, validated by TraceStack.tla against the StackBuf model (C14).

import (
	"fmt"

	"github.com/willabides/rjson"
)

type stackEv struct{ ev, top, length, capacity, ptr, val int }

var stackEvents []stackEv
var stackPtrIDs map[uintptr]int

func recordStack(ev, top, length, capacity int, array uintptr, val int) {
	id := 0
	if array != 0 {
		var ok bool
		id, ok = stackPtrIDs[array]
		if !ok {
			id = len(stackPtrIDs) + 1
			stackPtrIDs[array] = id
		}
	}
	stackEvents = append(stackEvents, stackEv{ev, top, length, capacity, id, val})
}

// execStackHist runs the steps on one Buffer with the hook on and writes the reset event followed by
// one line per internal event.
func execStackHist(steps []bufStep, hid int, write func([]byte)) {
	var j jb
	j.raw(`{"ev":9,"op":"stackhist","h":`)
	j.int(hid)
	j.raw(`,"steps":[`)
	for si, s := range steps {
		if si > 0 {
			j.comma()
		}
		j.raw(`{"fn":`)
		j.int(s.fn)
		j.raw(`,"mode":`)
		j.int(s.mode)
		j.raw(`,"k":`)
		j.int(s.k)
		j.comma()
		if s.segs != nil {
			j.key("segs")
			j.segs(s.segs)
		} else {
			j.key("in")
			j.bytes(s.data)
		}
		j.raw(`}`)
	}
	j.raw(`]}`)
	write(j.b)
	stackEvents = stackEvents[:0]
	stackPtrIDs = map[uintptr]int{}
	rjson.VerifStack = recordStack
	buf := &rjson.Buffer{}
	for _, s := range steps {
		runBufStep(s, buf, nil)
	}
	rjson.VerifStack = nil
	for _, e := range stackEvents {
		j.reset()
		j.raw(`{"ev":`)
		j.int(e.ev)
		j.raw(`,"top":`)
		j.int(e.top)
		j.raw(`,"len":`)
		j.int(e.length)
		j.raw(`,"cap":`)
		j.int(e.capacity)
		j.raw(`,"ptr":`)
		j.int(e.ptr)
		j.raw(`,"val":`)
		j.int(e.val)
		j.raw(`}`)
		write(j.b)
	}
}

func genStack(c *genCtx) error {
	docs := histDocs(c)
	var small []bufStep
	for _, d := range docs {
		if len(d.data) <= 2000 {
			small = append(small, d)
		}
	}
	nh := 600
	if c.thorough() {
		nh = 40000
	}
	// a history must stay in one shard (its events are consecutive lines): one writer per shard, histories dealt round-robin
	for hI := 0; hI < nh; hI++ {
		setCurrent(fmt.Sprintf("stackhist %d", hI))
		nsteps := 1 + c.rng.Intn(5)
		var steps []bufStep
		for si := 0; si < nsteps; si++ {
			s := small[c.rng.Intn(len(small))]
			if c.thorough() && c.rng.Intn(200) == 0 {
				s = docs[c.rng.Intn(len(docs))] // occasionally a very deep one
			}
			s.fn = 1 + c.rng.Intn(5)
			if s.fn >= 4 {
				s.mode = c.rng.Intn(7)
				s.k = c.rng.Intn(4)
				if len(s.data) > 5000 && s.mode == hmNested {
					s.mode = hmSkipSame
				}
			}
			steps = append(steps, s)
		}
		shard := hI % len(c.sw.ws)
		execStackHist(steps, hI, func(line []byte) { c.sw.writeTo(shard, line) })
		c.st.noteKey(fmt.Sprint("stackhist", hI, len(steps)), true)
	}
	return nil
}

func init() {
	families["stack"] = genStack
	replayers["stackhist"] = func(ev map[string]interface{}) ([]byte, error) {
		var steps []bufStep
		for _, x := range ev["steps"].([]interface{}) {
			m := x.(map[string]interface{})
			d, segs := stepInput(m)
			steps = append(steps, bufStep{fn: int(m["fn"].(float64)), mode: int(m["mode"].(float64)), k: int(m["k"].(float64)), data: d, segs: segs})
		}
		var out []byte
		execStackHist(steps, 0, func(line []byte) {
			if len(out) > 0 {
				out = append(out, '\n')
			}
			out = append(out, line...)
		})
		return out, nil
	}
}
