package main

// Family "floats": number literals -> float64 (C04).  math/big is used for
// *constructing* inputs (exact halfway points and their neighbours) only; the
// rounding relation is evaluated by TLC in Floats.tla.

import (
	"bytes"
	"encoding/json"
	"fmt"
	"math"
	"math/big"
	"os"
	"strconv"
	"strings"

	"github.com/willabides/rjson"
	"github.com/willabides/rjson/internal/fp"
)

var lastTier int
var sawWide bool
var (
	scanSeen, scanNeg, scanTrunc, scanOK bool
	scanM                                uint64
	scanX, scanN                         int
)

// concMode: several goroutines run the observers at once; the path hook and its
// globals are switched off so that the harness itself shares nothing.
var concMode bool

func init() {
	fp.VerifPath = func(t int) { lastTier = t }
	fp.VerifWide = func() { sawWide = true }
	// hook H4: what readFloat extracted, kept for the first conversion after a reset
	fp.VerifScan = func(m uint64, x int, neg, trunc bool, n int, ok bool) {
		if !scanSeen {
			scanSeen, scanM, scanX, scanNeg, scanTrunc, scanN, scanOK = true, m, x, neg, trunc, n, ok
		}
	}
}

func bitsWords(v float64) []int { return encF(v) }

var floatReader rjson.ValueReader // reused across the events of a sequential run (rows 6, 7)

func runFloat(sw *shardWriter, j *jb, input []byte, st *genStats) (tier int, wide bool) {
	input = relayout(input)
	orig := append([]byte{}, input...)
	panics := 0
	j.reset()
	j.raw(`{"op":"float","in":`)
	j.bytes(input)
	j.raw(`,"r":[`)
	row := func(k int, err error, p int, v float64) {
		if k > 1 {
			j.comma()
		}
		j.ints(append([]int{k, b2i(err == nil), p}, bitsWords(v)...))
	}
	if !concMode {
		lastTier, sawWide, scanSeen = 0, false, false
	}
	guardPanic(&panics, func() { v, p, err := rjson.ReadFloat64(input); row(1, err, p, v) })
	var scan []int // decimal digits of the mantissa, then exp, neg, trunc, n, ok
	if !concMode {
		tier, wide = lastTier, sawWide
		if scanSeen {
			for _, ch := range strconv.FormatUint(scanM, 10) {
				scan = append(scan, int(ch-'0'))
			}
			scan = append(scan, scanX, b2i(scanNeg), b2i(scanTrunc), scanN, b2i(scanOK))
		}
		scanSeen = true // later conversions of this event are not recorded
	}
	guardPanic(&panics, func() {
		v := -12345.678
		p, err := rjson.DecodeFloat64(input, &v)
		row(2, err, p, v)
	})
	guardPanic(&panics, func() {
		v, p, err := rjson.ReadValue(input)
		f, _ := v.(float64)
		row(3, err, p, f)
	})
	// strconv on the literal alone (the part ReadFloat64 consumed, when it succeeded)
	lit := bytes.TrimLeft(input, " \t\r\n")
	end := numPrefix(lit)
	// the same literal as a leaf of a document, through the generic decoders (package level and a reused reader):
	// every API that converts numbers owes the same value.  Rows 4..7 (the offset is that of the whole document).
	if end > 0 && end <= 4096 {
		l := lit[:end]
		rd := &floatReader
		if concMode {
			rd = &rjson.ValueReader{}
		}
		leaf := func(k int, doc []byte, read func(d []byte) (interface{}, int, error), pick func(v interface{}) interface{}) {
			guardPanic(&panics, func() {
				v, p, err := read(doc)
				f := 0.0
				if err == nil {
					x, ok := pick(v).(float64)
					if !ok {
						err = errCompose
					}
					f = x
				}
				row(k, err, p, f)
			})
		}
		cat := func(pre string, mid []byte, post string) []byte { return append(append([]byte(pre), mid...), post...) }
		leaf(4, cat("[", l, "]"), rjson.ReadValue, func(v interface{}) interface{} { return v.([]interface{})[0] })
		leaf(5, cat(`{"a":`, l, "}"), rjson.ReadValue, func(v interface{}) interface{} { return v.(map[string]interface{})["a"] })
		leaf(6, cat("[0,", l, " ,1]"), func(d []byte) (interface{}, int, error) { a, p, err := rd.ReadArray(d); return a, p, err },
			func(v interface{}) interface{} { return v.([]interface{})[1] })
		leaf(7, cat(`{"k":[`, l, `],"a":`+string(l)+"}"), func(d []byte) (interface{}, int, error) { m, p, err := rd.ReadObject(d); return m, p, err },
			func(v interface{}) interface{} { return v.(map[string]interface{})["a"] })
	}
	j.raw(`],"std":`)
	sv, serr := strconv.ParseFloat(string(lit[:end]), 64)
	stdok := 1
	if serr != nil {
		stdok = 0
		if ne, ok := serr.(*strconv.NumError); ok && ne.Err == strconv.ErrRange {
			stdok = 2 // out of range
		}
	}
	j.ints(append([]int{stdok, end}, bitsWords(sv)...))
	j.raw(`,"tier":`)
	j.int(tier)
	j.raw(`,"wide":`)
	j.b01(wide)
	j.raw(`,"scan":`)
	j.ints(scan)
	j.raw(`,"panics":`)
	j.int(panics)
	j.raw(`,"unch":`)
	j.b01(bytes.Equal(orig, input))
	j.raw(`}`)
	if panics > 0 {
		j.panicEvent("float", input)
	}
	if sw != nil {
		sw.write(j.b)
	}
	st.note(input, panics > 0)
	if !concMode {
		st.Extra[fmt.Sprintf("tier%d", tier)]++
		if wide {
			st.Extra["wide"]++
		}
	}
	return tier, wide
}

// numPrefix is the length of the longest prefix of b with the shape of a JSON
// number (input selection for strconv only; the specification recomputes it).
func numPrefix(b []byte) int {
	i := 0
	dig := func() int {
		n := 0
		for i < len(b) && b[i] >= '0' && b[i] <= '9' {
			i++
			n++
		}
		return n
	}
	if i < len(b) && b[i] == '-' {
		i++
	}
	if i < len(b) && b[i] == '0' {
		i++
	} else if dig() == 0 {
		return 0
	}
	if i+1 < len(b) && b[i] == '.' && b[i+1] >= '0' && b[i+1] <= '9' {
		i++
		dig()
	}
	if i < len(b) && (b[i] == 'e' || b[i] == 'E') {
		k := i
		i++
		if i < len(b) && (b[i] == '+' || b[i] == '-') {
			i++
		}
		if dig() == 0 {
			i = k
		}
	}
	return i
}

// decimalOf returns digits and exp10 with mant * 2^exp2 = digits * 10^exp10 exactly.
func decimalOf(mant *big.Int, exp2 int) (string, int) {
	if mant.Sign() == 0 {
		return "0", 0
	}
	if exp2 >= 0 {
		v := new(big.Int).Lsh(mant, uint(exp2))
		return v.String(), 0
	}
	v := new(big.Int).Mul(mant, new(big.Int).Exp(big.NewInt(5), big.NewInt(int64(-exp2)), nil))
	return v.String(), exp2
}

// spellings of digits * 10^e10
func spellings(digits string, e10 int, rngPick func(int) int) []string {
	var out []string
	// scientific: d.ddd e X
	x := e10 + len(digits) - 1
	sci := digits[:1]
	if len(digits) > 1 {
		sci += "." + digits[1:]
	}
	out = append(out, fmt.Sprintf("%se%d", sci, x))
	// integer mantissa with exponent
	out = append(out, fmt.Sprintf("%sE%+d", digits, e10))
	// plain notation when reasonably short
	if e10 >= 0 && e10 < 40 {
		out = append(out, digits+strings.Repeat("0", e10))
	} else if e10 < 0 && -e10 < 1200 {
		if -e10 >= len(digits) {
			out = append(out, "0."+strings.Repeat("0", -e10-len(digits))+digits)
		} else {
			out = append(out, digits[:len(digits)+e10]+"."+digits[len(digits)+e10:])
		}
	}
	// shifted point with a compensating exponent
	k := 1 + rngPick(len(digits))
	if k < len(digits) {
		out = append(out, fmt.Sprintf("%s.%se%d", digits[:k], digits[k:], e10+len(digits)-k))
	}
	return out
}

func bumpLast(digits string, d int) string {
	v, _ := new(big.Int).SetString(digits, 10)
	v.Add(v, big.NewInt(int64(d)))
	if v.Sign() < 0 {
		return "0"
	}
	return v.String()
}

func genFloats(c *genCtx) error {
	var j jb
	rp := func(n int) int {
		if n <= 0 {
			return 0
		}
		return c.rng.Intn(n)
	}
	emit := func(s string) {
		runFloat(c.sw, &j, []byte(s), c.st)
	}
	withFollow := func(s string) {
		emit(s)
		f := []string{" ", ",", "]", "}", "x", "\n", "\xff", "-", "+", "\"", ":"}
		emit(s + f[rp(len(f))])
		if rp(4) == 0 {
			emit(" \t" + s)
			emit("-" + s)
		}
	}
	for _, d := range lenientDocs() {
		emit(string(d))
	}
	// 0. one witness literal per abstract class of the scanner model (MC_FloatScan, emitted by TLC)
	if c.statesPath != "" {
		lits, err := loadFloatLits(c.statesPath)
		if err != nil {
			return err
		}
		for _, l := range lits {
			emit(string(l))
			emit(string(l) + ",")
			c.st.Extra["spec_class_witnesses"]++
		}
	}
	// 1. halfway points between adjacent floats, and their neighbours
	var xs []float64
	for _, x := range []float64{1, 2, 0.5, 0.1, 1e15, 1e16, 1e22, 1e23, 9007199254740992, 9007199254740993, 4503599627370496,
		math.MaxFloat64, math.SmallestNonzeroFloat64, 2.2250738585072014e-308, 2.225073858507201e-308, 1e-310, 5e-324, 1e-320,
		1.7976931348623155e308, 8.98846567431158e307, 1e308, 123456789012345680, 0.3, 1e-5, 3.14159, 6.02214076e23, 1.602176634e-19} {
		xs = append(xs, x)
	}
	nx := 250
	if c.thorough() {
		nx = 2500
	}
	for i := 0; i < nx; i++ {
		var x float64
		switch rp(5) {
		case 0:
			x = math.Float64frombits(c.rng.Uint64() & 0x7fefffffffffffff)
		case 1:
			x = math.Float64frombits(uint64(rp(2046)+1)<<52 | uint64(rp(4))) // just above a power of two
		case 2:
			x = math.Float64frombits(uint64(rp(2046)+1)<<52 | (1<<52 - 1 - uint64(rp(4)))) // just below
		case 3:
			x = math.Float64frombits(uint64(1 + rp(1<<20))) // subnormals
		default:
			x = math.Ldexp(float64(1+rp(1<<30)), rp(200)-100)
		}
		if x == 0 || math.IsInf(x, 0) || math.IsNaN(x) {
			continue
		}
		xs = append(xs, x)
	}
	for _, x := range xs {
		m, e := math.Frexp(x) // x = m * 2^e, m in [0.5,1)
		mant := new(big.Int).SetUint64(uint64(math.Ldexp(m, 53)))
		e2 := e - 53
		if x < 2.2250738585072014e-308 { // subnormal: fixed exponent
			mant = new(big.Int).SetUint64(math.Float64bits(x))
			e2 = -1074
		}
		// halfway to the next float up: (2*mant+1) * 2^(e2-1)
		h := new(big.Int).Add(new(big.Int).Lsh(mant, 1), big.NewInt(1))
		digits, e10 := decimalOf(h, e2-1)
		cands := []string{digits, bumpLast(digits, 1), bumpLast(digits, -1), digits + "1", digits + "0", digits + "00000000000000000001"}
		for ci, d := range cands {
			ee := e10
			if ci >= 3 {
				ee = e10 - (len(d) - len(digits))
			}
			sp := spellings(d, ee, rp)
			if !c.thorough() {
				sp = sp[rp(len(sp)):][:1]
			}
			for _, s := range sp {
				if len(s) <= 1400 {
					withFollow(s)
				}
			}
		}
		// the deciding digit exactly at, just before and just after the capacities of the
		// multiprecision decimal (800 digits) and of the fast paths
		if len(digits) < 700 && (c.thorough() || rp(3) == 0) {
			for _, total := range []int{19, 20, 767, 768, 769, 799, 800, 801, 802, 900} {
				if total <= len(digits)+1 {
					continue
				}
				z := strings.Repeat("0", total-len(digits)-1)
				for _, last := range []string{"1", "9"} {
					d := digits + z + last
					withFollow(fmt.Sprintf("%sE%d", d, e10-(len(d)-len(digits))))
				}
				// just below halfway: decrement, then nines
				d := bumpLast(digits, -1) + strings.Repeat("9", total-len(digits))
				withFollow(fmt.Sprintf("%sE%d", d, e10-(len(d)-len(digits))))
			}
		}
		// the float itself (shortest and exact spellings)
		withFollow(strconv.FormatFloat(x, 'g', -1, 64))
		dx, ex := decimalOf(mant, e2)
		if len(dx) < 1200 {
			sp := spellings(dx, ex, rp)
			withFollow(sp[rp(len(sp))])
		}
	}
	// 2. overflow / underflow thresholds
	for _, s := range []string{"1.7976931348623157e308", "1.7976931348623158e308", "1.7976931348623159e308", "1.797693134862315807e308",
		"1.797693134862315808e308", "179769313486231580793728971405303415079934132710037826936173778980444968292764750946649017977587207096330286416692887910946555547851940402630657488671505820681908902000708383676273854845817711531764475730270069855571366959622842914819860834936475292719074168444365510704342711559699508093042880177904174497791",
		"179769313486231580793728971405303415079934132710037826936173778980444968292764750946649017977587207096330286416692887910946555547851940402630657488671505820681908902000708383676273854845817711531764475730270069855571366959622842914819860834936475292719074168444365510704342711559699508093042880177904174497792",
		"1e308", "1e309", "2e308", "1e310", "1e400", "1e-323", "1e-324", "2e-324", "2.4703282292062327e-324", "2.4703282292062328e-324",
		"2.47032822920623272088284396434110686182529901307162382212792841250337753635104375932649918180817996189898282347722858865463328355177969898199387398005390939063150356595155702263922908583924491051844359318028499365361525003193704576782492193656236698636584807570015857692699037063119282795585513329278343384093519780155312465972635795746227664652728272200563740064854999770965994704540208281662262378573934507363390079677619305775067401763246736009689513405355374585166611342237666786041621596804619144672918403005300575308490487653917113865916462395249126236538818796362393732804238910186723484976682350898633885879256283027559956575244555072551893136908362547791869486679949683240497058210285131854513962138377228261454376934125320985913276672363281251e-324",
		"4.9406564584124654e-324", "5e-324", "0e0", "-0", "-0.0", "-0e5", "0.0", "0e-400", "-0e400", "0e99999999999999999999", "1e99999999999999999999",
		"1e-99999999999999999999", "1e0000000000000000000000001", "1E+0", "1e-0", "0.1e1", "100e-2", "0.000001e6",
		"1e22", "1e23", "8.41e21", "7.3177701707893310e15", "9007199254740993", "9007199254740992.5", "9007199254740993.00000000000000000000001",
		"0.1", "0.2", "0.3", "123456789012345678", "12345678901234567890", "1234567890123456789012345",
		"1.00000000000000011102230246251565404236316680908203125", "1.00000000000000011102230246251565404236316680908203124",
		"1.00000000000000011102230246251565404236316680908203126", "1.00000000000000033306690738754696212708950042724609375",
		"2.2250738585072011e-308", "2.2250738585072012e-308", "2.2250738585072014e-308", "2.225073858507201136057409796709131975934819546351645648023426109724822222021076945516529523908135087914149158913039621106870086438694594645527657207407820621743379988141063267329253552286881372149012981122451451889849057222307285255133155755015914397476397983411801999323962548289017107081850690630666655994938275772572015763062690663332647565300009245888316433037779791869612049497390377829704905051080609940730262937128958950003583799967207254304360284078895771796150945516748243471030702609144621572289880258182545180325707018860872113128079512233426288368622321503775666622503982534335974568884423900265498198385487948292206894721689831099698365846814022854243330660339850886445804001034933970427567186443383770486037861622771738545623065874679014086723327636718751e-308"} {
		withFollow(s)
	}
	// zeros of every spelling and length, both signs (the sign must survive every conversion path)
	for k := 0; k <= 40; k++ {
		z := strings.Repeat("0", k)
		for _, s := range []string{"0." + z, "0." + z + "0e5", "0." + z + "e-7", "0e" + z + "1", "0E-" + z + "0", "0." + z + "0E+400"} {
			withFollow(s)
			withFollow("-" + s)
		}
	}
	for _, k := range []int{767, 799, 800, 801, 900, 1200} {
		withFollow("-0." + strings.Repeat("0", k))
		withFollow("0." + strings.Repeat("0", k) + "1")
		withFollow("-0." + strings.Repeat("0", k) + "1e" + fmt.Sprint(k))
	}
	digitRunInputs(c.thorough(), func(d []byte) {
		if len(d) > 0 && d[0] != '[' && d[0] != '{' && (c.thorough() || rp(3) == 0) {
			runFloat(c.sw, &j, d, c.st)
		}
	})
	// 3. mantissa lengths x exponent windows
	lens := []int{1, 2, 5, 9, 15, 16, 17, 18, 19, 20, 21, 25, 40, 100, 400, 766, 767, 768, 769, 799, 800, 801, 820, 1100}
	exps := []int{-400, -348, -347, -330, -325, -324, -323, -310, -308, -307, -100, -38, -37, -23, -22, -21, -5, -1, 0, 1, 5, 15, 16, 21, 22, 23,
		37, 38, 100, 290, 300, 307, 308, 309, 310, 347, 348, 400}
	for _, n := range lens {
		for _, e := range exps {
			if !c.thorough() && rp(4) != 0 {
				continue
			}
			b := make([]byte, n)
			for i := range b {
				b[i] = byte('0' + rp(10))
			}
			if b[0] == '0' {
				b[0] = '1'
			}
			s := string(b)
			withFollow(fmt.Sprintf("%se%d", s, e-n+1))
			if n > 1 {
				withFollow(fmt.Sprintf("%s.%se%d", s[:1], s[1:], e))
				// long run of the same digit with a deciding digit last
				z := s[:1] + strings.Repeat("0", n-2) + string('1'+byte(rp(9)))
				withFollow(fmt.Sprintf("%se%d", z, e-n+1))
				nn := strings.Repeat("9", n)
				withFollow(fmt.Sprintf("%se%d", nn, e-n+1))
			}
		}
	}
	// 4. every table row: short and 19-digit mantissas; hook-guided search for the wide branch
	tries := 300
	if c.thorough() {
		tries = 6000
	}
	var probe jb
	for e := -348; e <= 347; e++ {
		withFollow(fmt.Sprintf("%de%d", 1+rp(9), e))
		withFollow(fmt.Sprintf("%de%d", uint64(1e18)+c.rng.Uint64()%uint64(8e18), e))
		withFollow(fmt.Sprintf("%d%de%d", uint64(1e18)+c.rng.Uint64()%uint64(8e18), rp(1000), e-3)) // truncated mantissa
		found := 0
		for t := 0; t < tries && found < 2; t++ {
			s := fmt.Sprintf("%de%d", c.rng.Uint64()>>uint(rp(12)), e)
			lastTier, sawWide = 0, false
			probePanics := 0
			guardPanic(&probePanics, func() { rjson.ReadFloat64([]byte(s)) })
			if probePanics > 0 {
				withFollow(s) // recorded (and reported) through the guarded observer
				break
			}
			if sawWide {
				found++
				withFollow(s)
			}
		}
		_ = probe
	}
	// 5. more than 800 significant integer digits that need the slow path
	for _, k := range []int{0, 1, 19, 100} {
		base := "100000000000000011102230246251565404236316680908203125" // 1 + 2^-53 (a halfway point), shifted
		s := base + strings.Repeat("0", 760+k)
		withFollow(fmt.Sprintf("%se-%d", s, len(s)-1))
		withFollow(fmt.Sprintf("%s.5e-%d", s, len(s)-1))
		t := base + strings.Repeat("0", 700+k) + "1"
		withFollow(fmt.Sprintf("%se-%d", t, len(t)-1))
	}
	// 6. random well-formed literals
	n := 3000
	if c.thorough() {
		n = 40000
	}
	g := &docGen{rng: c.rng}
	for i := 0; i < n; i++ {
		withFollow(string(g.num(nil)))
	}
	return nil
}

func loadFloatLits(path string) ([][]byte, error) {
	b, err := os.ReadFile(path)
	if err != nil {
		return nil, err
	}
	var raw [][]int
	if err := json.Unmarshal(b, &raw); err != nil {
		return nil, err
	}
	out := make([][]byte, len(raw))
	for i, r := range raw {
		for _, x := range r {
			out[i] = append(out[i], byte(x))
		}
	}
	return out, nil
}

func init() {
	families["floats"] = genFloats
	replayers["float"] = func(ev map[string]interface{}) ([]byte, error) {
		var j jb
		runFloat(nil, &j, anyBytes(ev["in"]), newStats())
		return append([]byte{}, j.b...), nil
	}
}
