// Command verifharness runs the real rjson code on generated inputs and writes
// the observations as ndjson event traces that the TLA+ trace specifications
// in /verif/spec validate.  It decides nothing itself.
package main

import (
	"bytes"
	"compress/gzip"
	"encoding/json"
	"flag"
	"fmt"
	"hash/fnv"
	"io"
	"math/rand"
	"os"
	"path/filepath"
	"sort"
	"strings"
	"sync/atomic"
	"time"
)

type genStats struct {
	Evaluations int             `json:"evaluations"`
	Distinct    int             `json:"distinct"`
	Nontrivial  int             `json:"distinct_nontrivial"`
	Panics      int             `json:"panics"`
	Events      int             `json:"events"`
	Samples     []string        `json:"samples"`
	Extra       map[string]int  `json:"extra"`
	seen        map[uint64]bool // value: non-trivial
}

func newStats() *genStats {
	return &genStats{seen: map[uint64]bool{}, Extra: map[string]int{}}
}

// note records one evaluated input; non-trivial = distinct and longer than one byte.
func (s *genStats) note(data []byte, panicked bool) {
	s.Evaluations++
	h := fnv.New64a()
	h.Write(data)
	k := h.Sum64()
	if _, ok := s.seen[k]; !ok {
		s.seen[k] = len(data) > 1
		s.Distinct++
		if len(data) > 1 {
			s.Nontrivial++
		}
	}
	if panicked {
		s.Panics++
	}
	progress()
}

// merge adds the counts of another (per-worker) statistics object; distinct counts are exact.
func (s *genStats) merge(o *genStats) {
	s.Evaluations += o.Evaluations
	s.Panics += o.Panics
	for k, nt := range o.seen {
		if _, ok := s.seen[k]; !ok {
			s.seen[k] = nt
			s.Distinct++
			if nt {
				s.Nontrivial++
			}
		}
	}
	for k, v := range o.Extra {
		s.Extra[k] += v
	}
}

// noteKey is note for cases identified by something other than the input bytes.
func (s *genStats) noteKey(key string, nontrivial bool) {
	s.Evaluations++
	h := fnv.New64a()
	h.Write([]byte(key))
	k := h.Sum64()
	if _, ok := s.seen[k]; !ok {
		s.seen[k] = nontrivial
		s.Distinct++
		if nontrivial {
			s.Nontrivial++
		}
	}
	progress()
}

// ---- hang watchdog: a call that does not return is a totality violation --------
var tick int64
var current atomic.Value // string description of the running case

func progress() { atomic.AddInt64(&tick, 1) }

func setCurrent(desc string) { current.Store(desc) }

func startWatchdog(outDir string, limit time.Duration) {
	go func() {
		last := atomic.LoadInt64(&tick)
		lastChange := time.Now()
		for {
			time.Sleep(500 * time.Millisecond)
			t := atomic.LoadInt64(&tick)
			if t != last {
				last = t
				lastChange = time.Now()
				continue
			}
			if time.Since(lastChange) > limit {
				desc, _ := current.Load().(string)
				os.WriteFile(filepath.Join(outDir, "HANG"), []byte(desc), 0o644)
				fmt.Fprintln(os.Stderr, "watchdog: no progress; last case:", desc)
				os.Exit(4)
			}
		}
	}()
}

// ---- corpus ----------------------------------------------------------------------
func corpusFiles(tier string, rng *rand.Rand) [][]byte {
	var out [][]byte
	dirs := []string{"/repo/testdata/jsontestsuite"}
	for _, d := range dirs {
		ents, _ := os.ReadDir(d)
		for _, e := range ents {
			b, err := os.ReadFile(filepath.Join(d, e.Name()))
			if err == nil && len(b) <= 4096 {
				out = append(out, b)
			}
		}
	}
	fz, _ := os.ReadDir("/repo/testdata/fuzz/corpus")
	names := make([]string, 0, len(fz))
	for _, e := range fz {
		names = append(names, e.Name())
	}
	sort.Strings(names)
	want := 1500
	if tier == "thorough" {
		want = len(names)
	}
	if want < len(names) {
		rng.Shuffle(len(names), func(i, j int) { names[i], names[j] = names[j], names[i] })
		names = names[:want]
	}
	for _, n := range names {
		b, err := os.ReadFile(filepath.Join("/repo/testdata/fuzz/corpus", n))
		if err == nil && len(b) <= 2048 {
			out = append(out, b)
		}
	}
	return out
}

func readGz(path string) []byte {
	f, err := os.Open(path)
	if err != nil {
		return nil
	}
	defer f.Close()
	z, err := gzip.NewReader(f)
	if err != nil {
		return nil
	}
	b, _ := io.ReadAll(z)
	return b
}

func main() {
	if len(os.Args) < 2 {
		fmt.Fprintln(os.Stderr, "usage: verifharness gen <family> [flags] | replay <file>")
		os.Exit(2)
	}
	switch os.Args[1] {
	case "gen":
		gen(os.Args[2:])
	case "replay":
		replay(os.Args[2:])
	default:
		fmt.Fprintln(os.Stderr, "unknown command", os.Args[1])
		os.Exit(2)
	}
}

func gen(args []string) {
	fs := flag.NewFlagSet("gen", flag.ExitOnError)
	out := fs.String("out", "", "output directory")
	shards := fs.Int("shards", 16, "number of shards")
	tier := fs.String("tier", "quick", "quick|thorough")
	seed := fs.Int64("seed", 1, "seed")
	states := fs.String("states", "", "spec states file (from MC_JSONMachine)")
	floatLits := fs.String("floatlits", "", "number literals, one per abstract class of the scanner model (from MC_FloatScan)")
	walks := fs.String("walks", "", "spec random walks file (from tlc -simulate)")
	only := fs.String("only", "", "comma-separated generator names (default: all of the family)")
	if len(args) < 1 {
		fmt.Fprintln(os.Stderr, "gen: family required")
		os.Exit(2)
	}
	family := args[0]
	fs.Parse(args[1:])
	if *out == "" {
		fmt.Fprintln(os.Stderr, "gen: -out required")
		os.Exit(2)
	}
	rng := rand.New(rand.NewSource(*seed))
	st := newStats()
	startWatchdog(*out, 60*time.Second)
	sw, err := newShardWriter(*out, family, *shards)
	if err != nil {
		fmt.Fprintln(os.Stderr, err)
		os.Exit(2)
	}
	want := func(name string) bool {
		if *only == "" {
			return true
		}
		for _, n := range strings.Split(*only, ",") {
			if n == name {
				return true
			}
		}
		return false
	}
	ctx := &genCtx{sw: sw, tier: *tier, rng: rng, st: st, statesPath: *states, floatLitsPath: *floatLits, walksPath: *walks, want: want, outDir: *out, seed: *seed}
	fn, ok := families[family]
	if !ok {
		fmt.Fprintln(os.Stderr, "unknown family", family)
		os.Exit(2)
	}
	if err := fn(ctx); err != nil {
		fmt.Fprintln(os.Stderr, "gen:", err)
		os.Exit(2)
	}
	if err := sw.close(); err != nil {
		fmt.Fprintln(os.Stderr, err)
		os.Exit(2)
	}
	st.Events = sw.count
	st.Samples = sw.samples
	b, _ := json.Marshal(st)
	os.WriteFile(filepath.Join(*out, family+".stats.json"), b, 0o644)
}

type genCtx struct {
	sw            *shardWriter
	tier          string
	rng           *rand.Rand
	st            *genStats
	statesPath    string
	floatLitsPath string
	walksPath     string
	want          func(string) bool
	outDir        string
	seed          int64
}

func (c *genCtx) thorough() bool { return c.tier == "thorough" }

var families = map[string]func(*genCtx) error{
	"parse": genParse,
}

func loadWalks(path string) [][]byte {
	if path == "" {
		return nil
	}
	b, err := os.ReadFile(path)
	if err != nil {
		return nil
	}
	var ws [][]int
	if json.Unmarshal(b, &ws) != nil {
		return nil
	}
	out := make([][]byte, len(ws))
	for i, w := range ws {
		out[i] = toBytes(w)
	}
	return out
}

func genParse(c *genCtx) error {
	if c.want("sweep") {
		if c.statesPath == "" {
			return fmt.Errorf("parse: -states required")
		}
		ss, err := loadStates(c.statesPath)
		if err != nil {
			return err
		}
		setCurrent("parse sweep")
		genSweep(ss, c.sw, c.tier, c.rng, c.st)
		setCurrent("parse depth contexts")
		genDepthContexts(ss, c.sw, c.tier, c.st)
	}
	po := newParseObserver()
	var j jb
	if c.want("depth") {
		setCurrent("parse depth family")
		genDepth(c.sw, c.tier, c.st)
	}
	docs := [][]byte{}
	if c.want("digits") {
		// every short string over the bytes that make up numbers and the structure around them: a value, what may
		// follow it, and what may not (hand-written fast paths for "simple" tokens are wrong on short odd ones)
		setCurrent("parse short strings")
		shortStrings([]byte("01-+.e,]}[ \""), 4, func(d []byte) { writeDoc(po, c.sw, &j, d, nil, c.st) })
		shortStrings([]byte("09-.eE,"), 5, func(d []byte) {
			if len(d) == 5 {
				writeDoc(po, c.sw, &j, d, nil, c.st)
			}
		})
		setCurrent("parse lenient sequences")
		for _, d := range lenientDocs() {
			writeDoc(po, c.sw, &j, d, nil, c.st)
		}
		setCurrent("parse digit runs")
		digitRunInputs(c.thorough(), func(d []byte) { writeDoc(po, c.sw, &j, d, nil, c.st) })
		setCurrent("parse long numbers")
		longNumberInputs(c.thorough(), func(sg []seg) { writeDoc(po, c.sw, &j, expandSegs(sg), sg, c.st) })
		// string runs: content runs of every length x every byte value / escape / multi-byte rune straddling the end of the run
		setCurrent("parse string runs")
		stringRunInputs(c.thorough(), 40, func(t []byte, k int) {
			writeDoc(po, c.sw, &j, t, nil, c.st)
			if k%8 <= 1 || k%8 == 7 {
				writeDoc(po, c.sw, &j, append(append([]byte(`{"k":[1,`), t...), "]}"...), nil, c.st)
				writeDoc(po, c.sw, &j, append(append([]byte(`[{`), t...), ":0}]"...), nil, c.st)
			}
		})
		// whitespace runs before and after values
		for k := 0; k <= 17; k++ {
			ws := bytes.Repeat([]byte(" "), k)
			for b := 0; b < 256; b++ {
				for _, v := range []string{"1", "[]", `"s"`, "null"} {
					for _, m := range []int{0, 7, 8, 9} {
						d := append(append(append(append([]byte{}, v...), ws...), byte(b)), bytes.Repeat([]byte(" "), m)...)
						writeDoc(po, c.sw, &j, d, nil, c.st)
					}
					d := append(append(append([]byte{}, ws...), byte(b)), v...)
					writeDoc(po, c.sw, &j, append(d, "        "...), nil, c.st)
				}
			}
		}
	}
	if c.want("walks") {
		docs = append(docs, loadWalks(c.walksPath)...)
	}
	if c.want("corpus") {
		docs = append(docs, corpusFiles(c.tier, c.rng)...)
	}
	if c.want("random") {
		n := 3000
		if c.thorough() {
			n = 40000
		}
		for i := 0; i < n; i++ {
			g := &docGen{rng: c.rng, maxDepth: 1 + c.rng.Intn(7), maxWidth: 1 + c.rng.Intn(5),
				wsProb: []float64{0, 0.2, 0.5}[c.rng.Intn(3)], maxStr: 1 + c.rng.Intn(12), hiBytes: c.rng.Intn(2) == 0}
			docs = append(docs, g.doc())
		}
	}
	for _, d := range docs {
		setCurrent(fmt.Sprintf("parse doc %q", trunc(d)))
		writeDoc(po, c.sw, &j, d, nil, c.st)
		nm := 2
		if c.thorough() {
			nm = 6
		}
		for k := 0; k < nm; k++ {
			m := mutate(c.rng, d)
			writeDoc(po, c.sw, &j, m, nil, c.st)
		}
	}
	return nil
}

func trunc(d []byte) []byte {
	if len(d) > 200 {
		return d[:200]
	}
	return d
}

// replayers re-run one recorded case on the real code and return a fresh event line.
var replayers = map[string]func(ev map[string]interface{}) ([]byte, error){}

func evInput(ev map[string]interface{}) []byte {
	if segs, ok := ev["segs"].([]interface{}); ok {
		var ss []seg
		for _, s := range segs {
			p := s.([]interface{})
			ss = append(ss, seg{anyBytes(p[0]), int(p[1].(float64))})
		}
		return expandSegs(ss)
	}
	return anyBytes(ev["in"])
}

func anyBytes(v interface{}) []byte {
	a, _ := v.([]interface{})
	out := make([]byte, len(a))
	for i, x := range a {
		out[i] = byte(x.(float64))
	}
	return out
}

func anyInts(v interface{}) []int {
	a, _ := v.([]interface{})
	out := make([]int, len(a))
	for i, x := range a {
		out[i] = int(x.(float64))
	}
	return out
}

func replay(args []string) {
	if len(args) < 1 {
		fmt.Fprintln(os.Stderr, "replay: file required")
		os.Exit(2)
	}
	b, err := os.ReadFile(args[0])
	if err != nil {
		fmt.Fprintln(os.Stderr, err)
		os.Exit(2)
	}
	var ev map[string]interface{}
	if err := json.Unmarshal(b, &ev); err != nil {
		fmt.Fprintln(os.Stderr, "replay:", err)
		os.Exit(2)
	}
	// a replay file is either a bare event or {"event": {...}, ...}
	if inner, ok := ev["event"].(map[string]interface{}); ok {
		ev = inner
	}
	op, _ := ev["op"].(string)
	if op == "panic" {
		op, _ = ev["orig"].(string)
	}
	fn, ok := replayers[op]
	if !ok {
		fmt.Fprintln(os.Stderr, "replay: no replayer for op", op)
		os.Exit(2)
	}
	startWatchdog(os.TempDir(), 120*time.Second)
	line, err := fn(ev)
	if err != nil {
		fmt.Fprintln(os.Stderr, "replay:", err)
		os.Exit(2)
	}
	os.Stdout.Write(line)
	os.Stdout.Write([]byte("\n"))
}
