package main

// Family "conc": the whole API from several goroutines at once on shared
// read-only inputs with private buffers, readers and destinations (C18).
// Every result is recorded per goroutine and validated against the
// *sequential* specification; the binary is built with -race, whose reports
// are the observation for the "no data race" clause.
//
// Goroutines share nothing inside the harness either (own writers, own
// statistics, no locks between them), so that the harness adds no
// happens-before edges that could hide a race in the library.

import (
	"fmt"
	"math/rand"
	"runtime"
	"strings"
	"sync"

	"github.com/willabides/rjson"
	"github.com/willabides/rjson/internal/fp"
)

type concInput struct {
	kind string // doc | num | str | tok | dec | san
	data []byte
}

func concInputs(c *genCtx) []concInput {
	var in []concInput
	add := func(k string, d []byte) { in = append(in, concInput{k, d}) }
	nd := 150
	if c.thorough() {
		nd = 1500
	}
	for i := 0; i < nd; i++ {
		g := &docGen{rng: c.rng, maxDepth: 1 + c.rng.Intn(6), maxWidth: 1 + c.rng.Intn(5), wsProb: 0.2, maxStr: 8, hiBytes: true}
		d := g.doc()
		add("doc", d)
		if i%3 == 0 {
			add("doc", mutate(c.rng, d))
		}
	}
	for _, d := range treeShapes(c) {
		add("doc", d)
	}
	// wide containers at the top level and nested (size hints, growth policies and anything else keyed on the
	// number of members: 63 / 64 / 65 / 130), twice each so that they meet in every window
	for rep := 0; rep < 2; rep++ {
		for _, n := range []int{63, 64, 65, 130} { // (TLC's tree comparison is quadratic in the width: 1000 members took minutes)
			add("doc", arrWithElems(n))
			add("doc", objWithKeys(n))
			add("doc", append(append([]byte(`{"w":`), arrWithElems(n)...), `,"v":[{}]}`...))
			add("doc", append(append([]byte(`[[],`), objWithKeys(n)...), `,{"a":1}]`...))
			add("doc", append(objWithKeys(n)[:12], `:`...)) // wide and malformed
		}
	}
	// malformed part-way through nested values (error exits of the generic decoder and the traversals)
	for _, s := range []string{`[{"a":1,"c":}]`, `[{"a":1,"c":}`, `{"a":[1,{"b":}]}`, `[[1,2],[3,`, `{"a":{"b":{"c":[1,}}}`, `[{"a":[]},{"b":[}]`, `{"k":[{"x":1},{"y":}]}`,
		`[1e400]`, `{"a":1e400}`, `[{"a":"\ud83d\ude00"},{"b":"\q"}]`, `[[[[[[[[1,]]]]]]]]`, `{"a":"x\ny","b":"\u12"}`} {
		for i := 0; i < 3; i++ {
			add("doc", []byte(s))
		}
	}
	for i := 0; i < nd; i++ {
		g := &docGen{rng: c.rng, maxDepth: 2 + c.rng.Intn(4), maxWidth: 2 + c.rng.Intn(3), wsProb: 0.1, maxStr: 6, hiBytes: true}
		d := g.container("[{"[c.rng.Intn(2)])
		add("doc", mutate(c.rng, d))
		add("doc", mutate(c.rng, mutate(c.rng, d)))
	}
	g := &docGen{rng: c.rng, maxStr: 20, hiBytes: true}
	for i := 0; i < nd; i++ {
		add("num", g.num(nil))
		add("str", g.str(nil))
	}
	for _, s := range []string{"1.00000000000000011102230246251565404236316680908203125", "9007199254740993", "1e23", "8.41e21", "2.4703282292062328e-324",
		"1.7976931348623158e308", "123456789012345678901234567890e-10", "18446744073709551615", "-9223372036854775808", "0.1", "1e400"} {
		add("num", []byte(s))
	}
	// every conversion path of the float reader, including literals longer than the 800-digit array of the decimal
	// fallback (near-midpoint, so that they do reach it), several times each so that they meet in many windows
	half := "2.4703282292062327208828439643411068618252990130716238221279284125033775363510437593264991818081799618989828234772285886546332835517796989819938739800539093906315035659515570226392290858392449105184435931802849936536152500319370457678249219365623669863658480757001585769269903706311928279558551332927834338409351978015531246597263579574622766465272827220056374006485499977096599470454020828166226237857393450736339007967761930577506740176324673600968951340535537458516661134223766678604162159680461914467291840300530057530849048765391711386591646239524912623653881879636239373280423891018672348497668235089863388587925628302755995657524455507255189313690836254779186948667994968324049705821028513185451396213837722826145437693412532098591327667236328125"
	for rep := 0; rep < 4; rep++ {
		add("num", []byte(half+"e-324"))
		add("num", []byte(half+strings.Repeat("0", 70)+"e-324"))
		add("num", []byte(half+strings.Repeat("0", 70)+"1e-324"))
		add("num", []byte("100000000000000011102230246251565404236316680908203125"+strings.Repeat("0", 760)+"e-813"))
		add("num", []byte("1"+strings.Repeat("0", 900)+"1e-901"))
		add("num", []byte("0."+strings.Repeat("0", 400)+"17976931348623157"+strings.Repeat("9", 500)+"e709"))
		add("str", []byte(`"`+strings.Repeat(`x\n\u00e9`, 300)+`"`))
		add("doc", []byte(`{"long\tkey`+strings.Repeat("k", 40)+`":["`+strings.Repeat(`\ud83d\ude00y`, 8)+`",1.00000000000000011102230246251565404236316680908203125]}`))
	}
	for _, s := range []string{"true", "false", "null", " nul", "[", "{", ",", ":", " \n\t", "", "x"} {
		add("tok", []byte(s))
		add("dec", []byte(s))
	}
	for _, s := range []string{"abc", "\xff\xfe", "é€😀", "\xed\xa0\x80", "a\xc0\x80b"} {
		add("san", []byte(s))
	}
	return in
}

func genConc(c *genCtx) error {
	concMode = true
	fp.VerifPath = nil
	fp.VerifWide = nil
	inputs := concInputs(c)
	G := 12
	rounds := []int{1, 2, 4, 16}
	if c.thorough() {
		rounds = []int{1, 2, 3, 4, 8, 16, 16, 16}
	}
	type gctx struct {
		sws map[string]*shardWriter
		st  *genStats
	}
	fams := []string{"parse", "values", "floats", "trees", "handlers"}
	ctxs := make([]*gctx, G)
	for g := 0; g < G; g++ {
		ctxs[g] = &gctx{sws: map[string]*shardWriter{}, st: newStats()}
		for _, f := range fams {
			sw, err := newShardWriter(c.outDir, fmt.Sprintf("conc_%s_g%02d", f, g), 1)
			if err != nil {
				return err
			}
			ctxs[g].sws[f] = sw
		}
	}
	for ri, procs := range rounds {
		old := runtime.GOMAXPROCS(procs)
		start := make(chan struct{})
		var wg, ready sync.WaitGroup
		ready.Add(G)
		order := rand.New(rand.NewSource(c.seed*77 + int64(ri))).Perm(len(inputs)) // the same windows for every goroutine
		// the inputs of this round are carved out of ONE array, back to back in the order of the windows: every
		// input's spare capacity is its neighbours' bytes, which other goroutines are reading at the same time
		// (lines of one read buffer handed to workers).  Sharing read-only input bytes is allowed; anything the
		// library does beyond len(data) meets a concurrent reader here.
		inputs := append([]concInput{}, inputs...)
		total := 0
		for _, in := range inputs {
			total += len(in.data)
		}
		arena := make([]byte, 0, total)
		for _, idx := range order {
			a := len(arena)
			arena = append(arena, inputs[idx].data...)
			inputs[idx].data = arena[a:len(arena)]
		}
		barrier := make([]sync.WaitGroup, 2+len(inputs)/6+1)
		for i := range barrier {
			barrier[i].Add(G)
		}
		for g := 0; g < G; g++ {
			wg.Add(1)
			go func(g int) {
				defer wg.Done()
				gc := ctxs[g]
				rng := rand.New(rand.NewSource(c.seed*1000 + int64(ri*100+g)))
				po := newParseObserver()
				var rd rjson.ValueReader
				warmUp(&rd)
				used := &rjson.Buffer{}
				var j jb
				// all preparation (which takes global runtime locks, e.g. when a sync.Pool is first used) is
				// finished by every goroutine before any of them starts
				ready.Done()
				<-start
				// Phase 0, the first-use storm: every goroutine touches every value of the exported TokenType and
				// every entry point on tiny inputs at once, so that anything initialised lazily or cached on first
				// use is hit concurrently.  The race detector forgets old accesses after a bounded number of
				// synchronisation events (its epochs are small and a global reset wipes the shadow memory), so
				// conflicting accesses must be close together: the work is therefore done in phases separated by
				// barriers, and within a phase all goroutines work on the same small window of inputs.
				for t := 0; t < 256; t++ {
					_ = rjson.TokenType(t).String()
				}
				barrier[0].Done()
				barrier[0].Wait()
				for _, tiny := range []string{"1", `"\u00e9\ud83d\ude00"`, "[1e400]", `{"a":[1,{"b":}]}`, "1.00000000000000011102230246251565404236316680908203125", "nul", "-"} {
					d := []byte(tiny)
					writeDoc(po, gc.sws["parse"], &j, d, nil, gc.st)
					runTreeWith(&rd, gc.sws["trees"], &j, d, nil, gc.st)
					runInt(gc.sws["values"], &j, d, gc.st)
					runFloat(gc.sws["floats"], &j, d, gc.st)
					runStr(gc.sws["values"], &j, d, 1, gc.st)
					runTok(gc.sws["values"], &j, d, gc.st)
					runSan(gc.sws["values"], &j, d, nil, 1, gc.st)
				}
				const window = 6
				for ph := 0; ph*window < len(order); ph++ {
					barrier[1+ph].Done()
					barrier[1+ph].Wait()
					lo := ph * window
					hi := lo + window
					if hi > len(order) {
						hi = len(order)
					}
					win := append([]int{}, order[lo:hi]...)
					if g%2 == 1 { // half of the goroutines walk the window in their own order
						rng.Shuffle(len(win), func(a, b int) { win[a], win[b] = win[b], win[a] })
					}
					for _, idx := range win {
						in := inputs[idx]
						switch in.kind {
						case "doc":
							writeDoc(po, gc.sws["parse"], &j, in.data, nil, gc.st)
							runTreeWith(&rd, gc.sws["trees"], &j, in.data, nil, gc.st)
							kind := byte('A')
							if firstNonWS(in.data) == '{' {
								kind = 'O'
							}
							runHandle(gc.sws["handlers"], &j, kind, in.data, nil, answer{mode: modeZero}, used, gc.st, "conc")
							runHandle(gc.sws["handlers"], &j, kind, in.data, nil, answer{mode: modeExact}, nil, gc.st, "conc")
						case "num":
							runInt(gc.sws["values"], &j, in.data, gc.st)
							runFloat(gc.sws["floats"], &j, in.data, gc.st)
						case "str":
							runStr(gc.sws["values"], &j, in.data, rng.Intn(8), gc.st)
						case "tok":
							runTok(gc.sws["values"], &j, in.data, gc.st)
							for t := 0; t < 256; t += 1 + rng.Intn(3) {
								_ = rjson.TokenType(t).String() // every value of the exported type, defined or not
							}
						case "dec":
							runDecode(gc.sws["values"], &j, rng.Intn(len(decodeFns)), in.data, gc.st)
						case "san":
							runSan(gc.sws["values"], &j, in.data, []byte("p"), 2, gc.st)
						}
					}
				}
			}(g)
		}
		ready.Wait()
		close(start)
		wg.Wait()
		runtime.GOMAXPROCS(old)
	}
	for _, gc := range ctxs {
		for _, sw := range gc.sws {
			if err := sw.close(); err != nil {
				return err
			}
			c.sw.count += sw.count
			if len(c.sw.samples) < 3 && len(sw.samples) > 0 {
				c.sw.samples = append(c.sw.samples, sw.samples[0])
			}
		}
		c.st.Evaluations += gc.st.Evaluations
		c.st.Distinct += gc.st.Distinct
		c.st.Nontrivial += gc.st.Nontrivial
		c.st.Panics += gc.st.Panics
	}
	c.st.Extra["goroutines"] = G
	c.st.Extra["rounds"] = len(rounds)
	return nil
}

func init() {
	families["conc"] = genConc
}
