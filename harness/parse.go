package main

// Family "parse": Valid, SkipValue, SkipValueFast (C01, C02, C11) and, through
// the same observations, input immutability and totality (C16, C10).

import (
	"bufio"
	"bytes"
	"encoding/json"
	"errors"
	"math/rand"
	"os"
	"runtime"
	"sync"

	"github.com/willabides/rjson"
)

// specState is one reachable state of MC_JSONMachine with its BFS witness.
type specState struct {
	Key   string  `json:"key"`
	K     string  `json:"k"`
	C     string  `json:"c"`
	X     string  `json:"x"`
	N     int     `json:"n"`
	W     int     `json:"w"`
	D     int     `json:"d"`
	Out   string  `json:"out"`
	Inp   []int   `json:"inp"`
	Comp  []int   `json:"comp"`
	Close []int   `json:"close"`
	Succ  []succT `json:"succ"`
}

type succT struct {
	B    int    `json:"b"`
	Out  string `json:"out"`
	Comp []int  `json:"comp"`
	Key  string `json:"key"`
}

type specStates struct {
	Classes []int       `json:"classes"`
	States  []specState `json:"states"`
}

func loadStates(path string) (*specStates, error) {
	f, err := os.Open(path)
	if err != nil {
		return nil, err
	}
	defer f.Close()
	var ss specStates
	dec := json.NewDecoder(bufio.NewReaderSize(f, 1<<20))
	if err := dec.Decode(&ss); err != nil {
		return nil, err
	}
	return &ss, nil
}

func toBytes(v []int) []byte {
	out := make([]byte, len(v))
	for i, x := range v {
		out[i] = byte(x)
	}
	return out
}

// skipValueCompat is encoding/json's streaming decoder driven the way the
// repository's own compat function drives it.
func skipValueCompat(data []byte) (p int, err error) {
	decoder := json.NewDecoder(bytes.NewReader(data))
	decoder.UseNumber()
	tkn, err := decoder.Token()
	if err != nil {
		return int(decoder.InputOffset()), err
	}
	_, ok := tkn.(json.Delim)
	if !ok {
		return int(decoder.InputOffset()), nil
	}
	decoder = json.NewDecoder(bytes.NewReader(data))
	decoder.UseNumber()
	var val interface{}
	err = decoder.Decode(&val)
	return int(decoder.InputOffset()), err
}

type parseObserver struct {
	grown   rjson.Buffer // has been through a handler traversal of a document nested far beyond the limit
	used    rjson.Buffer // reused across every input of this generator run
	failed  rjson.Buffer // re-dirtied by a failing nested document before each use
	stopArr rjson.ArrayValueHandlerFunc
	stopObj rjson.ObjectValueHandlerFunc
	orig    []byte
	noStd   bool   // skip the (slow) stdlib observations for very long inputs
	arena   []byte // one input array, refilled for the "same array, different document" observations
	lay     []byte // arena of the capacity-layout observations
	tuples  [][5]int
}

var dirtyDoc = []byte(`[[[[{"a":[{"b":[1,`)
var dirtyObjDoc = []byte(`{"a":[[{"b":{"c":[1,`)
var stopDoc = []byte(`[1,[2,[3,"x"]],{"a":[4]}]`)
var stopObjDoc = []byte(`{"a":1,"b":{"c":[2,{"d":"x"}]}}`)
var errStop = errors.New("handler stops")
var farArr = rjson.ArrayValueHandlerFunc(func(d []byte) (int, error) { return len(d) + 7, nil })
var deepDoc = bytes.Repeat([]byte("["), 300)
var tooDeepDoc = bytes.Repeat([]byte("["), 10001)
var wayTooDeepDoc = append(bytes.Repeat([]byte("["), 10060), bytes.Repeat([]byte("]"), 10060)...)

func newParseObserver() *parseObserver {
	po := &parseObserver{}
	// the reused buffer has been through a valid deep document and through a nest beyond the depth
	// limit (an error exit with the stack grown as far as it ever grows); replay recreates exactly this
	d := append(append([]byte{}, deepDoc...), bytes.Repeat([]byte("]"), 300)...)
	rjson.Valid(d, &po.used)
	rjson.SkipValue(tooDeepDoc, &po.used)
	// the handler machines have no depth limit: a traversal that declines every member leaves a stack
	// longer than any skip function would ever grow
	rjson.HandleArrayValues(wayTooDeepDoc, zeroArr, &po.grown)
	// handlers that enter container members with the observer's after-failure Buffer and fail on the first string
	po.stopArr = func(d []byte) (int, error) {
		switch d[0] {
		case '[':
			return rjson.HandleArrayValues(d, po.stopArr, &po.failed)
		case '{':
			return rjson.HandleObjectValues(d, po.stopObj, &po.failed)
		case '"':
			return 0, errStop
		}
		return 0, nil
	}
	po.stopObj = func(k, d []byte) (int, error) { return po.stopArr(d) }
	return po
}

const parseObsLen = 42

// observe runs the parse family on data and returns the observation vector:
//
//	0 Valid(nil) 1 Valid(fresh) 2 Valid(used) 3 Valid(after-failure buffer) 4 json.Valid
//	5,6 SkipValue(nil) ok,p   7,8 SkipValue(used) ok,p   9,10 stdlib streaming ok,p
//	11,12 SkipValueFast(nil) ok,p  13,14 SkipValueFast(used) ok,p
//	15 input unchanged  16 panics  17 stdlib observed (0 when skipped)
//	18 Valid(grown)  19,20 SkipValue(grown) ok,p  21,22 SkipValueFast(grown) ok,p  23 panics in these
//	24 Valid  25,26 SkipValue  27,28 SkipValueFast on the caller's array refilled with data after a same-length
//	document went through the same Buffer  29 panics in these
//	30 panics in the capacity layouts  31 spare capacity unchanged by them  32 document unchanged by them
//	33.. one tuple (Valid, SkipValue ok, p, SkipValueFast ok, p) per distinct result over the layouts
func (po *parseObserver) observe(data []byte, o []int) []int {
	o = o[:0]
	po.orig = append(po.orig[:0], data...)
	panics := 0
	guard := func(fn func()) {
		defer func() {
			if r := recover(); r != nil {
				panics++
			}
		}()
		fn()
	}
	var v [5]bool
	guard(func() { v[0] = rjson.Valid(data, nil) })
	guard(func() { v[1] = rjson.Valid(data, &rjson.Buffer{}) })
	guard(func() { v[2] = rjson.Valid(data, &po.used) })
	guard(func() {
		// every kind of failed call the Buffer may have been through: a malformed nested document in a skip
		// function and in both traversals, a traversal stopped by its handler's error (at the top and inside a
		// member the handler entered with the same Buffer), a handler offset out of range
		// (a new Buffer each time, so that the history is exactly this one and a replay recreates it)
		po.failed = rjson.Buffer{}
		rjson.SkipValue(dirtyDoc, &po.failed)
		rjson.SkipValueFast(dirtyDoc, &po.failed)
		rjson.HandleArrayValues(dirtyDoc, zeroArr, &po.failed)
		rjson.HandleObjectValues(dirtyObjDoc, zeroObj, &po.failed)
		rjson.HandleArrayValues(stopDoc, po.stopArr, &po.failed)
		rjson.HandleObjectValues(stopObjDoc, po.stopObj, &po.failed)
		rjson.HandleArrayValues(stopDoc, farArr, &po.failed)
		v[3] = rjson.Valid(data, &po.failed)
	})
	if !po.noStd {
		v[4] = json.Valid(data)
	}
	for i := 0; i < 5; i++ {
		o = append(o, b2i(v[i]))
	}
	pair := func(fn func() (int, error)) {
		var p int
		var err error
		ok := false
		guard(func() { p, err = fn(); ok = true })
		if !ok {
			o = append(o, 0, -1)
			return
		}
		o = append(o, b2i(err == nil), p)
	}
	pair(func() (int, error) { return rjson.SkipValue(data, nil) })
	pair(func() (int, error) { return rjson.SkipValue(data, &po.used) })
	if po.noStd {
		o = append(o, 0, 0)
	} else {
		pair(func() (int, error) { return skipValueCompat(data) })
	}
	pair(func() (int, error) { return rjson.SkipValueFast(data, nil) })
	pair(func() (int, error) { return rjson.SkipValueFast(data, &po.used) })
	o = append(o, b2i(bytes.Equal(po.orig, data)), panics, b2i(!po.noStd))
	before := panics
	vg := false
	guard(func() { vg = rjson.Valid(data, &po.grown) })
	o = append(o, b2i(vg))
	pair(func() (int, error) { return rjson.SkipValue(data, &po.grown) })
	pair(func() (int, error) { return rjson.SkipValueFast(data, &po.grown) })
	o = append(o, panics-before)
	// the caller's input array refilled: a well-formed document of the same length (a string token) goes through a
	// Buffer first, then data is copied into the very same array and goes through the same Buffer - anything a
	// Buffer remembers about "the last document" must not be keyed on where the bytes live
	before = panics
	n := len(data)
	if cap(po.arena) < n {
		po.arena = make([]byte, n, 2*n+16)
	}
	ar := po.arena[:n]
	refill := func(b *rjson.Buffer, first func([]byte, *rjson.Buffer)) {
		for i := range ar {
			ar[i] = 'a'
		}
		if n >= 2 {
			ar[0], ar[n-1] = '"', '"'
		} else if n == 1 {
			ar[0] = '7'
		}
		first(ar, b)
		copy(ar, data)
	}
	vr := false
	guard(func() {
		b := &rjson.Buffer{}
		refill(b, func(d []byte, b *rjson.Buffer) { rjson.Valid(d, b) })
		vr = rjson.Valid(ar, b)
	})
	o = append(o, b2i(vr))
	pair(func() (int, error) {
		b := &rjson.Buffer{}
		refill(b, func(d []byte, b *rjson.Buffer) { rjson.SkipValue(d, b) })
		return rjson.SkipValue(ar, b)
	})
	pair(func() (int, error) {
		b := &rjson.Buffer{}
		refill(b, func(d []byte, b *rjson.Buffer) { rjson.SkipValueFast(d, b) })
		return rjson.SkipValueFast(ar, b)
	})
	o = append(o, panics-before)
	// layouts of the caller's slice: the same bytes with capacity == length (the document ends where the backing
	// array ends) and with spare capacity that holds bytes which would continue or close whatever token or
	// container the document ends in (a digit, a quote, either closing bracket, the last letter of a literal).
	// What lies beyond len(data) is not input.  Distinct observation tuples are recorded once each (a set).
	before = panics
	need := n + len(layoutTails[0])
	if cap(po.lay) < 2*need {
		po.lay = make([]byte, 2*need+64)
	}
	tailsIntact, docsIntact := 1, 1
	tuples := po.tuples[:0]
	for li := 0; li <= len(layoutTails); li++ {
		var d []byte
		var tail []byte
		if li == 0 {
			d = po.lay[len(po.lay)-n:]
		} else {
			d = po.lay[li : li+n] // a different start offset (alignment) for every tail
			tail = po.lay[li+n : li+n+len(layoutTails[li-1])]
			copy(tail, layoutTails[li-1])
		}
		copy(d, data)
		var t [5]int
		guard(func() { t[0] = b2i(rjson.Valid(d, nil)) })
		t[2], t[4] = -1, -1
		guard(func() { p, err := rjson.SkipValue(d, nil); t[1], t[2] = b2i(err == nil), p })
		guard(func() { p, err := rjson.SkipValueFast(d, nil); t[3], t[4] = b2i(err == nil), p })
		if li > 0 && !bytes.Equal(tail, layoutTails[li-1]) {
			tailsIntact = 0
		}
		if !bytes.Equal(d, data) {
			docsIntact = 0
		}
		seen := false
		for _, u := range tuples {
			if u == t {
				seen = true
			}
		}
		if !seen {
			tuples = append(tuples, t)
		}
	}
	// the same array refilled (as in observations 24..28), with a *different* function going first on the Buffer:
	// two more tuples, each component after one of the other two functions
	firsts := []func([]byte, *rjson.Buffer){
		func(d []byte, b *rjson.Buffer) { rjson.Valid(d, b) },
		func(d []byte, b *rjson.Buffer) { rjson.SkipValue(d, b) },
		func(d []byte, b *rjson.Buffer) { rjson.SkipValueFast(d, b) },
	}
	for x := 1; x <= 2; x++ {
		var t [5]int
		t[2], t[4] = -1, -1
		guard(func() {
			b := &rjson.Buffer{}
			refill(b, firsts[(0+x)%3])
			t[0] = b2i(rjson.Valid(ar, b))
		})
		guard(func() {
			b := &rjson.Buffer{}
			refill(b, firsts[(1+x)%3])
			p, err := rjson.SkipValue(ar, b)
			t[1], t[2] = b2i(err == nil), p
		})
		guard(func() {
			b := &rjson.Buffer{}
			refill(b, firsts[(2+x)%3])
			p, err := rjson.SkipValueFast(ar, b)
			t[3], t[4] = b2i(err == nil), p
		})
		seen := false
		for _, u := range tuples {
			if u == t {
				seen = true
			}
		}
		if !seen {
			tuples = append(tuples, t)
		}
	}
	po.tuples = tuples
	o = append(o, panics-before, tailsIntact, docsIntact)
	for _, t := range tuples {
		o = append(o, t[:]...)
	}
	return o
}

// what the spare capacity of the caller's slice holds in the layout observations
var layoutTails = [][]byte{
	[]byte(`5"]}]}"]}  `), []byte(`"]}]}"]}5  `), []byte(`]}]"}]}5"  `), []byte(`}]}"]}]5"  `), []byte(`e"]}]}"]}5 `), []byte(`l"]}]}"]}5 `),
}

// genSweep: every base (reachable state, and every viable transition into a state) x byte values x
// continuations; one compact "sweep" event per base.
func genSweep(ss *specStates, sw *shardWriter, tier string, rng *rand.Rand, st *genStats) {
	thorough := tier == "thorough"
	mem := classMembers(ss)
	conts := [][]byte{[]byte("5"), []byte("0"), []byte(`"`)}
	if thorough {
		conts = tokenCompletions(ss)
	}
	bases := sweepBases(ss, true, false, rng)
	parallelBases(bases, st, rng, func(base sweepBase, rng *rand.Rand, st *genStats, w *sweepWorker) {
		genSweepBase(ss, sw, base, thorough, mem, conts, rng, st, w)
	})
}

// sweepWorker holds the per-goroutine scratch of a sweep.
type sweepWorker struct {
	po     *parseObserver
	j      jb
	obs    []int
	buf    []byte
	rd     rjson.ValueReader // private reused reader (trees)
	rdWarm bool
	used   rjson.Buffer // private reused buffer (handlers)
}

// parallelBases runs fn over the bases on all CPUs; every worker has its own observer, random
// source and statistics (merged at the end), so the result does not depend on scheduling.
func parallelBases(bases []sweepBase, st *genStats, rng *rand.Rand, fn func(base sweepBase, rng *rand.Rand, st *genStats, w *sweepWorker)) {
	nw := runtime.NumCPU()
	if nw > 16 {
		nw = 16
	}
	seeds := make([]int64, len(bases))
	for i := range seeds {
		seeds[i] = rng.Int63()
	}
	var wg sync.WaitGroup
	stats := make([]*genStats, nw)
	for w := 0; w < nw; w++ {
		stats[w] = newStats()
		wg.Add(1)
		go func(w int) {
			defer wg.Done()
			sw := &sweepWorker{po: newParseObserver(), obs: make([]int, 0, parseObsLen), buf: make([]byte, 0, 256)}
			for i := w; i < len(bases); i += nw {
				fn(bases[i], rand.New(rand.NewSource(seeds[i])), stats[w], sw)
			}
		}(w)
	}
	wg.Wait()
	for _, s := range stats {
		st.merge(s)
	}
}

func genSweepBase(ss *specStates, sw *shardWriter, base sweepBase, thorough bool, mem map[int][]int, conts [][]byte, rng *rand.Rand, st *genStats, w *sweepWorker) {
	po := w.po
	j := &w.j
	obs := w.obs
	buf := w.buf
	{
		s := base.st
		pre := base.pre
		sufs := [][]byte{{}}
		sufIdx := map[string]int{"": 0}
		add := func(b []byte) int {
			if i, ok := sufIdx[string(b)]; ok {
				return i
			}
			sufIdx[string(b)] = len(sufs)
			sufs = append(sufs, b)
			return len(sufs) - 1
		}
		j.reset()
		j.raw(`{"op":"sweep","pre":`)
		j.bytes(pre)
		j.raw(`,"rows":[`)
		first := true
		row := func(b, sfi int) {
			buf = append(buf[:0], pre...)
			buf = append(buf, byte(b))
			buf = append(buf, sufs[sfi]...)
			obs = po.observe(buf, obs)
			if !first {
				j.comma()
			}
			first = false
			j.raw("[")
			j.int(b)
			j.comma()
			j.int(sfi)
			for _, x := range obs {
				j.comma()
				j.int(x)
			}
			j.raw("]")
			st.note(buf, obs[16] != 0)
		}
		if s.Out != "run" { // a complete value: whatever follows
			tail := add([]byte(" 1"))
			for b := 0; b < 256; b++ {
				if base.edge && !thorough && b != mem[ss.Classes[b]][0] {
					continue
				}
				row(b, 0)
				if b == mem[ss.Classes[b]][0] {
					row(b, tail)
				}
			}
		} else {
			succ := map[int]*succT{}
			for i := range s.Succ {
				succ[s.Succ[i].B] = &s.Succ[i]
			}
			comp := toBytes(s.Comp)
			srcComp := add(comp)
			for b := 0; b < 256; b++ {
				ms := mem[ss.Classes[b]]
				picked := thorough || b == ms[0] || (!base.edge && (b == ms[len(ms)-1] || (len(ms) > 2 && rng.Intn(len(ms)) == 0)))
				if base.edge && !picked {
					continue // edge bases: one byte per class in the quick tier
				}
				row(b, 0)
				if !picked {
					continue
				}
				su := succ[ss.Classes[b]]
				if su != nil && (su.Out == "run" || su.Out == "done") {
					if ci := add(toBytes(su.Comp)); ci != 0 {
						row(b, ci)
					}
					continue
				}
				if srcComp != 0 {
					row(b, srcComp)
				}
				if (b == ms[0] && !base.edge) || (b == ms[0] && ss.Classes[b] != 33 && ss.Classes[b] != 0 && ss.Classes[b] != 128) {
					cs := conts
					if base.edge {
						cs = conts[:1]
						if thorough {
							cs = conts[:3]
						}
					}
					for _, t := range cs {
						row(b, add(append(append([]byte{}, t...), comp...)))
					}
				}
			}
		}
		j.raw(`],"sufs":[`)
		for i, sf := range sufs {
			if i > 0 {
				j.comma()
			}
			j.bytes(sf)
		}
		j.raw(`]}`)
		sw.write(j.b)
	}
	w.obs, w.buf = obs, buf
}

// writeDoc observes one whole document and writes a "doc" event.
func writeDoc(po *parseObserver, sw *shardWriter, j *jb, data []byte, segs []seg, st *genStats) {
	obs := po.observe(data, make([]int, 0, parseObsLen))
	j.reset()
	j.raw(`{"op":"doc",`)
	if segs != nil {
		j.key("segs")
		j.segs(segs)
	} else {
		j.key("in")
		j.bytes(data)
	}
	j.raw(`,"o":`)
	j.ints(obs)
	j.raw(`}`)
	sw.write(j.b)
	st.note(data, obs[16] != 0)
}

// genDepthContexts: the depth limit in every syntactic position.  Every reachable
// state of the (depth-3) model in which a value may start is inflated to the real
// limit by padding its witness with outer arrays; both brackets are then offered
// at total depth 10000 (must be accepted) and 10001 (must be refused).
func genDepthContexts(ss *specStates, sw *shardWriter, tier string, st *genStats) {
	po := newParseObserver()
	po.noStd = false
	var j jb
	for si := range ss.States {
		s := &ss.States[si]
		if s.Out != "run" || s.D != 3 || !(s.K == "V" || s.K == "A0") {
			continue
		}
		if tier != "thorough" && s.W == 1 {
			continue // whitespace-seen copies only in the thorough tier
		}
		w := toBytes(s.Inp)
		cl := toBytes(s.Close)
		for _, pad := range []int{9996, 9997} {
			for _, br := range []string{"[]", "{}"} {
				mid := append(append(append([]byte{}, w...), br...), cl...)
				segs := []seg{{[]byte("["), pad}, {mid, 1}, {[]byte("]"), pad}}
				writeDoc(po, sw, &j, expandSegs(segs), segs, st)
				// a second container at the same (deepest) level: the stack is already fully grown
				sib := "," + br
				if len(cl) > 0 && cl[0] == '}' {
					sib = `,"s":` + br
				}
				mid2 := append(append(append(append([]byte{}, w...), br...), sib...), cl...)
				segs2 := []seg{{[]byte("["), pad}, {mid2, 1}, {[]byte("]"), pad}}
				writeDoc(po, sw, &j, expandSegs(segs2), segs2, st)
			}
		}
	}
}

// depth family: nesting at, just below and just above the limit in every
// array/object mixture, with different bottoms.
func genDepth(sw *shardWriter, tier string, st *genStats) {
	po := newParseObserver()
	var j jb
	depths := []int{9999, 10000, 10001}
	if tier == "thorough" {
		depths = []int{1, 2, 9998, 9999, 10000, 10001, 10002, 20000}
	}
	type shape struct {
		open, close, bottom string
	}
	shapes := []shape{
		{"[", "]", ""}, {"[", "]", "1"}, {"[", "]", `"x"`}, {"[", "]", "{}"},
		{`{"a":`, "}", "1"}, {`{"a":`, "}", "[]"}, {`{"a":`, "}", "null"},
		{`[{"k":`, "}]", "0"}, {`{"k":[`, "]}", ""}, {" [ ", " ] ", " true "},
	}
	for _, d := range depths {
		for _, sh := range shapes {
			per := 1
			if len(sh.open) > 2 && (sh.open[0] == '[' && sh.open[1] == '{' || sh.open[len(sh.open)-1] == '[' && sh.open[0] == '{') {
				per = 2
			}
			n := d / per
			segs := []seg{{[]byte(sh.open), n}}
			if d%per == 1 {
				segs = append(segs, seg{[]byte("["), 1})
			}
			extra := 0
			if sh.bottom == "{}" || sh.bottom == "[]" {
				extra = 1
			}
			_ = extra
			segs = append(segs, seg{[]byte(sh.bottom), 1})
			if d%per == 1 {
				segs = append(segs, seg{[]byte("]"), 1})
			}
			segs = append(segs, seg{[]byte(sh.close), n})
			data := expandSegs(segs)
			writeDoc(po, sw, &j, data, segs, st)
			// unclosed and over-closed variants
			segs2 := segs[:len(segs)-1]
			writeDoc(po, sw, &j, expandSegs(segs2), segs2, st)
		}
	}
}

func init() {
	replayers["doc"] = func(ev map[string]interface{}) ([]byte, error) {
		data := evInput(ev)
		po := newParseObserver()
		obs := po.observe(data, nil)
		var j jb
		j.raw(`{"op":"doc",`)
		if s, ok := ev["segs"]; ok {
			b, _ := json.Marshal(s)
			j.key("segs")
			j.raw(string(b))
		} else {
			j.key("in")
			j.bytes(data)
		}
		j.raw(`,"o":`)
		j.ints(obs)
		j.raw(`}`)
		return j.b, nil
	}
}
