package main

// Family "parse": Valid, SkipValue, SkipValueFast (C01, C02, C11) and, through
// the same observations, input immutability and totality (C16, C10).

import (
	"bufio"
	"bytes"
	"encoding/json"
	"math/rand"
	"os"

	"github.com/willabides/rjson"
)

// specState is one reachable state of MC_JSONMachine with its BFS witness.
type specState struct {
	K    string  `json:"k"`
	C    string  `json:"c"`
	X    string  `json:"x"`
	N    int     `json:"n"`
	W    int     `json:"w"`
	D    int     `json:"d"`
	Out  string  `json:"out"`
	Inp  []int   `json:"inp"`
	Comp []int   `json:"comp"`
	Succ []succT `json:"succ"`
}

type succT struct {
	B    int    `json:"b"`
	Out  string `json:"out"`
	Comp []int  `json:"comp"`
}

type specStates struct {
	Classes []int       `json:"classes"`
	States  []specState `json:"states"`
}

func loadStates(path string) (*specStates, error) {
	f, err := os.Open(path)
	if err != nil {
		return nil, err
	}
	defer f.Close()
	var ss specStates
	dec := json.NewDecoder(bufio.NewReaderSize(f, 1<<20))
	if err := dec.Decode(&ss); err != nil {
		return nil, err
	}
	return &ss, nil
}

func toBytes(v []int) []byte {
	out := make([]byte, len(v))
	for i, x := range v {
		out[i] = byte(x)
	}
	return out
}

// skipValueCompat is encoding/json's streaming decoder driven the way the
// repository's own compat function drives it.
func skipValueCompat(data []byte) (p int, err error) {
	decoder := json.NewDecoder(bytes.NewReader(data))
	decoder.UseNumber()
	tkn, err := decoder.Token()
	if err != nil {
		return int(decoder.InputOffset()), err
	}
	_, ok := tkn.(json.Delim)
	if !ok {
		return int(decoder.InputOffset()), nil
	}
	decoder = json.NewDecoder(bytes.NewReader(data))
	decoder.UseNumber()
	var val interface{}
	err = decoder.Decode(&val)
	return int(decoder.InputOffset()), err
}

type parseObserver struct {
	used   rjson.Buffer // reused across every input of this generator run
	failed rjson.Buffer // re-dirtied by a failing nested document before each use
	orig   []byte
	noStd  bool // skip the (slow) stdlib observations for very long inputs
}

var dirtyDoc = []byte(`[[[[{"a":[{"b":[1,`)
var deepDoc = bytes.Repeat([]byte("["), 300)

func newParseObserver() *parseObserver {
	po := &parseObserver{}
	d := append(append([]byte{}, deepDoc...), bytes.Repeat([]byte("]"), 300)...)
	rjson.Valid(d, &po.used)
	return po
}

const parseObsLen = 18

// observe runs the parse family on data and returns the observation vector:
//
//	0 Valid(nil) 1 Valid(fresh) 2 Valid(used) 3 Valid(after-failure buffer) 4 json.Valid
//	5,6 SkipValue(nil) ok,p   7,8 SkipValue(used) ok,p   9,10 stdlib streaming ok,p
//	11,12 SkipValueFast(nil) ok,p  13,14 SkipValueFast(used) ok,p
//	15 input unchanged  16 panics  17 stdlib observed (0 when skipped)
func (po *parseObserver) observe(data []byte, o []int) []int {
	o = o[:0]
	po.orig = append(po.orig[:0], data...)
	panics := 0
	guard := func(fn func()) {
		defer func() {
			if r := recover(); r != nil {
				panics++
			}
		}()
		fn()
	}
	var v [5]bool
	guard(func() { v[0] = rjson.Valid(data, nil) })
	guard(func() { v[1] = rjson.Valid(data, &rjson.Buffer{}) })
	guard(func() { v[2] = rjson.Valid(data, &po.used) })
	guard(func() {
		rjson.SkipValue(dirtyDoc, &po.failed)
		v[3] = rjson.Valid(data, &po.failed)
	})
	if !po.noStd {
		v[4] = json.Valid(data)
	}
	for i := 0; i < 5; i++ {
		o = append(o, b2i(v[i]))
	}
	pair := func(fn func() (int, error)) {
		var p int
		var err error
		ok := false
		guard(func() { p, err = fn(); ok = true })
		if !ok {
			o = append(o, 0, -1)
			return
		}
		o = append(o, b2i(err == nil), p)
	}
	pair(func() (int, error) { return rjson.SkipValue(data, nil) })
	pair(func() (int, error) { return rjson.SkipValue(data, &po.used) })
	if po.noStd {
		o = append(o, 0, 0)
	} else {
		pair(func() (int, error) { return skipValueCompat(data) })
	}
	pair(func() (int, error) { return rjson.SkipValueFast(data, nil) })
	pair(func() (int, error) { return rjson.SkipValueFast(data, &po.used) })
	o = append(o, b2i(bytes.Equal(po.orig, data)), panics, b2i(!po.noStd))
	return o
}

// genSweep: every reachable spec state x every byte value x continuations.
func genSweep(ss *specStates, sw *shardWriter, tier string, rng *rand.Rand, st *genStats) {
	po := newParseObserver()
	var j jb
	obs := make([]int, 0, parseObsLen)
	buf := make([]byte, 0, 256)
	for si := range ss.States {
		s := &ss.States[si]
		if s.Out == "err" {
			continue
		}
		pre := toBytes(s.Inp)
		// suffix table
		sufs := [][]byte{{}}
		sufIdx := map[string]int{"": 0}
		add := func(b []byte) int {
			if i, ok := sufIdx[string(b)]; ok {
				return i
			}
			sufIdx[string(b)] = len(sufs)
			sufs = append(sufs, b)
			return len(sufs) - 1
		}
		srcComp := -1
		succComp := map[int]int{}
		if s.Out == "run" {
			srcComp = add(toBytes(s.Comp))
			for _, su := range s.Succ {
				if su.Out == "run" || su.Out == "done" {
					succComp[su.B] = add(toBytes(su.Comp))
				}
			}
		} else { // done: something follows a complete value
			srcComp = add([]byte(" 1"))
		}
		// which members of each class get the continuation rows in the quick tier
		pick := map[int]bool{}
		if tier != "thorough" {
			members := map[int][]int{}
			for b := 0; b < 256; b++ {
				members[ss.Classes[b]] = append(members[ss.Classes[b]], b)
			}
			for _, m := range members {
				pick[m[0]] = true
				pick[m[len(m)-1]] = true
				pick[m[rng.Intn(len(m))]] = true
			}
		}
		j.reset()
		j.raw(`{"op":"sweep","pre":`)
		j.bytes(pre)
		j.raw(`,"sufs":[`)
		for i, sf := range sufs {
			if i > 0 {
				j.comma()
			}
			j.bytes(sf)
		}
		j.raw(`],"rows":[`)
		first := true
		row := func(b, sfi int) {
			buf = append(buf[:0], pre...)
			buf = append(buf, byte(b))
			buf = append(buf, sufs[sfi]...)
			obs = po.observe(buf, obs)
			if !first {
				j.comma()
			}
			first = false
			j.raw("[")
			j.int(b)
			j.comma()
			j.int(sfi)
			for _, x := range obs {
				j.comma()
				j.int(x)
			}
			j.raw("]")
			st.note(buf, obs[16] != 0)
		}
		for b := 0; b < 256; b++ {
			row(b, 0)
			if tier == "thorough" || pick[b] {
				if srcComp > 0 {
					row(b, srcComp)
				}
				if ci, ok := succComp[ss.Classes[b]]; ok && ci != srcComp && ci != 0 {
					row(b, ci)
				}
			}
		}
		j.raw(`]}`)
		sw.write(j.b)
	}
}

// writeDoc observes one whole document and writes a "doc" event.
func writeDoc(po *parseObserver, sw *shardWriter, j *jb, data []byte, segs []seg, st *genStats) {
	obs := po.observe(data, make([]int, 0, parseObsLen))
	j.reset()
	j.raw(`{"op":"doc",`)
	if segs != nil {
		j.key("segs")
		j.segs(segs)
	} else {
		j.key("in")
		j.bytes(data)
	}
	j.raw(`,"o":`)
	j.ints(obs)
	j.raw(`}`)
	sw.write(j.b)
	st.note(data, obs[16] != 0)
}

// depth family: nesting at, just below and just above the limit in every
// array/object mixture, with different bottoms.
func genDepth(sw *shardWriter, tier string, st *genStats) {
	po := newParseObserver()
	var j jb
	depths := []int{9999, 10000, 10001}
	if tier == "thorough" {
		depths = []int{1, 2, 9998, 9999, 10000, 10001, 10002, 20000}
	}
	type shape struct {
		open, close, bottom string
	}
	shapes := []shape{
		{"[", "]", ""}, {"[", "]", "1"}, {"[", "]", `"x"`}, {"[", "]", "{}"},
		{`{"a":`, "}", "1"}, {`{"a":`, "}", "[]"}, {`{"a":`, "}", "null"},
		{`[{"k":`, "}]", "0"}, {`{"k":[`, "]}", ""}, {" [ ", " ] ", " true "},
	}
	for _, d := range depths {
		for _, sh := range shapes {
			per := 1
			if len(sh.open) > 2 && (sh.open[0] == '[' && sh.open[1] == '{' || sh.open[len(sh.open)-1] == '[' && sh.open[0] == '{') {
				per = 2
			}
			n := d / per
			segs := []seg{{[]byte(sh.open), n}}
			if d%per == 1 {
				segs = append(segs, seg{[]byte("["), 1})
			}
			extra := 0
			if sh.bottom == "{}" || sh.bottom == "[]" {
				extra = 1
			}
			_ = extra
			segs = append(segs, seg{[]byte(sh.bottom), 1})
			if d%per == 1 {
				segs = append(segs, seg{[]byte("]"), 1})
			}
			segs = append(segs, seg{[]byte(sh.close), n})
			data := expandSegs(segs)
			writeDoc(po, sw, &j, data, segs, st)
			// unclosed and over-closed variants
			segs2 := segs[:len(segs)-1]
			writeDoc(po, sw, &j, expandSegs(segs2), segs2, st)
		}
	}
}

func init() {
	replayers["doc"] = func(ev map[string]interface{}) ([]byte, error) {
		data := evInput(ev)
		po := newParseObserver()
		obs := po.observe(data, nil)
		var j jb
		j.raw(`{"op":"doc",`)
		if s, ok := ev["segs"]; ok {
			b, _ := json.Marshal(s)
			j.key("segs")
			j.raw(string(b))
		} else {
			j.key("in")
			j.bytes(data)
		}
		j.raw(`,"o":`)
		j.ints(obs)
		j.raw(`}`)
		return j.b, nil
	}
}
