package main

// Family "total": every exported entry point on hostile inputs (C10): it must
// return normally, and a nil error must come with an offset inside the input.

import (
	"bytes"
	"fmt"
	"os"
	"path/filepath"
	"runtime/debug"
	"strings"

	"github.com/willabides/rjson"
)

type totalFn struct {
	name string
	// returns (reports an offset, offset, err)
	fn func(data []byte, buf *rjson.Buffer) (bool, int, error)
}

var zeroArr = rjson.ArrayValueHandlerFunc(func(d []byte) (int, error) { return 0, nil })
var zeroObj = rjson.ObjectValueHandlerFunc(func(k, d []byte) (int, error) { return 0, nil })

var totalFns = []totalFn{
	{"Valid", func(d []byte, b *rjson.Buffer) (bool, int, error) { rjson.Valid(d, b); return false, 0, nil }},
	{"SkipValue", func(d []byte, b *rjson.Buffer) (bool, int, error) {
		p, err := rjson.SkipValue(d, b)
		return true, p, err
	}},
	{"SkipValueFast", func(d []byte, b *rjson.Buffer) (bool, int, error) {
		p, err := rjson.SkipValueFast(d, b)
		return true, p, err
	}},
	{"NextToken", func(d []byte, b *rjson.Buffer) (bool, int, error) {
		_, p, err := rjson.NextToken(d)
		return true, p, err
	}},
	{"NextTokenType", func(d []byte, b *rjson.Buffer) (bool, int, error) {
		_, p, err := rjson.NextTokenType(d)
		return true, p, err
	}},
	{"ReadNull", func(d []byte, b *rjson.Buffer) (bool, int, error) { p, err := rjson.ReadNull(d); return true, p, err }},
	{"ReadBool", func(d []byte, b *rjson.Buffer) (bool, int, error) {
		_, p, err := rjson.ReadBool(d)
		return true, p, err
	}},
	{"ReadInt64", func(d []byte, b *rjson.Buffer) (bool, int, error) {
		_, p, err := rjson.ReadInt64(d)
		return true, p, err
	}},
	{"ReadInt32", func(d []byte, b *rjson.Buffer) (bool, int, error) {
		_, p, err := rjson.ReadInt32(d)
		return true, p, err
	}},
	{"ReadInt", func(d []byte, b *rjson.Buffer) (bool, int, error) { _, p, err := rjson.ReadInt(d); return true, p, err }},
	{"ReadUint64", func(d []byte, b *rjson.Buffer) (bool, int, error) {
		_, p, err := rjson.ReadUint64(d)
		return true, p, err
	}},
	{"ReadUint32", func(d []byte, b *rjson.Buffer) (bool, int, error) {
		_, p, err := rjson.ReadUint32(d)
		return true, p, err
	}},
	{"ReadUint", func(d []byte, b *rjson.Buffer) (bool, int, error) {
		_, p, err := rjson.ReadUint(d)
		return true, p, err
	}},
	{"ReadFloat64", func(d []byte, b *rjson.Buffer) (bool, int, error) {
		_, p, err := rjson.ReadFloat64(d)
		return true, p, err
	}},
	{"ReadString", func(d []byte, b *rjson.Buffer) (bool, int, error) {
		_, p, err := rjson.ReadString(d, nil)
		return true, p, err
	}},
	{"ReadStringBuf", func(d []byte, b *rjson.Buffer) (bool, int, error) {
		sb := make([]byte, 3, 8)
		_, p, err := rjson.ReadString(d, &sb)
		return true, p, err
	}},
	{"ReadStringBytes", func(d []byte, b *rjson.Buffer) (bool, int, error) {
		_, p, err := rjson.ReadStringBytes(d, nil)
		return true, p, err
	}},
	{"UnescapeStringContent", func(d []byte, b *rjson.Buffer) (bool, int, error) {
		_, p, err := rjson.UnescapeStringContent(d, nil)
		return true, p, err
	}},
	{"DecodeBool", func(d []byte, b *rjson.Buffer) (bool, int, error) {
		var v bool
		p, err := rjson.DecodeBool(d, &v)
		return true, p, err
	}},
	{"DecodeFloat64", func(d []byte, b *rjson.Buffer) (bool, int, error) {
		var v float64
		p, err := rjson.DecodeFloat64(d, &v)
		return true, p, err
	}},
	{"DecodeInt64", func(d []byte, b *rjson.Buffer) (bool, int, error) {
		var v int64
		p, err := rjson.DecodeInt64(d, &v)
		return true, p, err
	}},
	{"DecodeInt32", func(d []byte, b *rjson.Buffer) (bool, int, error) {
		var v int32
		p, err := rjson.DecodeInt32(d, &v)
		return true, p, err
	}},
	{"DecodeInt", func(d []byte, b *rjson.Buffer) (bool, int, error) {
		var v int
		p, err := rjson.DecodeInt(d, &v)
		return true, p, err
	}},
	{"DecodeUint64", func(d []byte, b *rjson.Buffer) (bool, int, error) {
		var v uint64
		p, err := rjson.DecodeUint64(d, &v)
		return true, p, err
	}},
	{"DecodeUint32", func(d []byte, b *rjson.Buffer) (bool, int, error) {
		var v uint32
		p, err := rjson.DecodeUint32(d, &v)
		return true, p, err
	}},
	{"DecodeUint", func(d []byte, b *rjson.Buffer) (bool, int, error) {
		var v uint
		p, err := rjson.DecodeUint(d, &v)
		return true, p, err
	}},
	{"DecodeString", func(d []byte, b *rjson.Buffer) (bool, int, error) {
		var v string
		p, err := rjson.DecodeString(d, &v, nil)
		return true, p, err
	}},
	{"ReadValue", func(d []byte, b *rjson.Buffer) (bool, int, error) {
		_, p, err := rjson.ReadValue(d)
		return true, p, err
	}},
	{"ReadObject", func(d []byte, b *rjson.Buffer) (bool, int, error) {
		_, p, err := rjson.ReadObject(d)
		return true, p, err
	}},
	{"ReadArray", func(d []byte, b *rjson.Buffer) (bool, int, error) {
		_, p, err := rjson.ReadArray(d)
		return true, p, err
	}},
	{"HandleArrayValues0", func(d []byte, b *rjson.Buffer) (bool, int, error) {
		p, err := rjson.HandleArrayValues(d, zeroArr, b)
		return true, p, err
	}},
	{"HandleObjectValues0", func(d []byte, b *rjson.Buffer) (bool, int, error) {
		p, err := rjson.HandleObjectValues(d, zeroObj, b)
		return true, p, err
	}},
	{"StdLibCompatibleStringBytes(dst)", func(d []byte, b *rjson.Buffer) (bool, int, error) {
		if len(d) <= 1<<12 {
			for spare := 0; spare <= 5; spare++ {
				dst := make([]byte, 2, 2+spare)
				rjson.StdLibCompatibleStringBytes(d, dst)
				rjson.UnescapeStringContent(d, make([]byte, 1, 1+spare))
				rjson.ReadStringBytes(d, make([]byte, 3, 3+spare))
			}
		}
		return false, 0, nil
	}},
	{"TokenType.String", func(d []byte, b *rjson.Buffer) (bool, int, error) {
		if len(d) > 0 {
			_ = rjson.TokenType(d[0]).String()
			_ = rjson.TokenType(d[len(d)-1]).String()
		}
		return false, 0, nil
	}},
	{"StdLibCompatibleString", func(d []byte, b *rjson.Buffer) (bool, int, error) {
		if len(d) <= 1<<16 {
			rjson.StdLibCompatibleString(string(d))
			rjson.StdLibCompatibleStringBytes(d, nil)
		}
		return false, 0, nil
	}},
	// ValueReader: its three readers on a used reader, and its two exported handler methods called directly and
	// handed to the traversal functions, on a zero reader and on a used one
	{"ValueReader.ReadValue(used)", func(d []byte, b *rjson.Buffer) (bool, int, error) {
		_, p, err := usedVR().ReadValue(d)
		return true, p, err
	}},
	{"ValueReader.ReadObject(used)", func(d []byte, b *rjson.Buffer) (bool, int, error) {
		_, p, err := usedVR().ReadObject(d)
		return true, p, err
	}},
	{"ValueReader.ReadArray(used)", func(d []byte, b *rjson.Buffer) (bool, int, error) {
		_, p, err := usedVR().ReadArray(d)
		return true, p, err
	}},
	{"ValueReader.HandleArrayValue(zero)", func(d []byte, b *rjson.Buffer) (bool, int, error) {
		var z rjson.ValueReader
		p, err := z.HandleArrayValue(d)
		return true, p, err
	}},
	{"ValueReader.HandleObjectValue(zero)", func(d []byte, b *rjson.Buffer) (bool, int, error) {
		var z rjson.ValueReader
		p, err := z.HandleObjectValue(keyOf(d), d)
		return true, p, err
	}},
	{"ValueReader.HandleArrayValue(used)", func(d []byte, b *rjson.Buffer) (bool, int, error) {
		p, err := usedVR().HandleArrayValue(d)
		return true, p, err
	}},
	{"ValueReader.HandleObjectValue(used)", func(d []byte, b *rjson.Buffer) (bool, int, error) {
		p, err := usedVR().HandleObjectValue(keyOf(d), d)
		return true, p, err
	}},
	{"HandleArrayValues(zero ValueReader)", func(d []byte, b *rjson.Buffer) (bool, int, error) {
		var z rjson.ValueReader
		p, err := rjson.HandleArrayValues(d, &z, b)
		return true, p, err
	}},
	{"HandleObjectValues(zero ValueReader)", func(d []byte, b *rjson.Buffer) (bool, int, error) {
		var z rjson.ValueReader
		p, err := rjson.HandleObjectValues(d, &z, b)
		return true, p, err
	}},
	{"HandleArrayValues(used ValueReader)", func(d []byte, b *rjson.Buffer) (bool, int, error) {
		p, err := rjson.HandleArrayValues(d, usedVR(), b)
		return true, p, err
	}},
	{"HandleObjectValues(used ValueReader)", func(d []byte, b *rjson.Buffer) (bool, int, error) {
		p, err := rjson.HandleObjectValues(d, usedVR(), b)
		return true, p, err
	}},
}

// usedVR returns a reader with a fixed history (recreated for every event, so that replay sees the same reader).
var curVR *rjson.ValueReader

func usedVR() *rjson.ValueReader {
	if curVR == nil {
		curVR = new(rjson.ValueReader)
		warmUp(curVR)
	}
	return curVR
}

// keyOf: the field name handed to a directly called HandleObjectValue: a short piece of the hostile input itself.
func keyOf(d []byte) []byte {
	if len(d) > 12 {
		return d[len(d)-12:]
	}
	return d
}

var sharedTotalBuf rjson.Buffer

func runTotal(sw *shardWriter, j *jb, data []byte, segs []seg, st *genStats) {
	data = relayout(data)
	orig := append([]byte{}, data...)
	curVR = nil
	j.reset()
	j.raw(`{"op":"total",`)
	if segs != nil {
		j.key("segs")
		j.segs(segs)
	} else {
		j.key("in")
		j.bytes(data)
	}
	j.raw(`,"n":`)
	j.int(len(data))
	j.raw(`,"r":[`)
	for i, f := range totalFns {
		setCurrent(fmt.Sprintf("total %s on %d bytes %q", f.name, len(data), trunc(data)))
		for bi, buf := range []*rjson.Buffer{nil, &sharedTotalBuf} {
			has, p, panicked := false, 0, 0
			var err error
			func() {
				defer func() {
					if r := recover(); r != nil {
						panicked = 1
					}
				}()
				has, p, err = f.fn(data, buf)
			}()
			if i > 0 || bi > 0 {
				j.comma()
			}
			if p > 1<<30 || p < -(1<<30) {
				p = -2
			}
			j.ints([]int{i, b2i(has), b2i(err == nil), p, panicked})
			if panicked == 1 {
				st.Panics++
			}
			progress()
		}
	}
	j.raw(`],"unch":`)
	j.b01(bytes.Equal(orig, data))
	j.raw(`}`)
	if sw != nil {
		sw.write(j.b)
	}
	st.note(data, false)
}

func genTotal(c *genCtx) error {
	var j jb
	big := 100_000
	runLen := 1 << 20
	if c.thorough() {
		big = 1_000_000
	}
	opens := []string{"[", `{"a":`, `[{"a":`, `{"a":[`, "[ ", `{"":`, `["x",`, `{"k":1,"a":`}
	closes := []string{"]", "}", "}]", "]}", " ]", "}", "]", "}"}
	for _, n := range []int{9_999, 10_000, 10_001, big} {
		for i, o := range opens {
			for _, bottom := range []string{"", "1", `"s"`, "nul", "{}", "[]"} {
				for _, closed := range []int{0, 1, 2} {
					segs := []seg{{[]byte(o), n}, {[]byte(bottom), 1}}
					switch closed {
					case 1:
						segs = append(segs, seg{[]byte(closes[i]), n})
					case 2:
						segs = append(segs, seg{[]byte(closes[i]), n + 5})
					}
					if n == big && !c.thorough() && (closed == 2 || len(bottom) > 1) {
						continue
					}
					runTotal(c.sw, &j, expandSegs(segs), segs, c.st)
				}
			}
		}
	}
	// every level's deep member preceded by a sibling container (a reader that hands each level to a recycled child
	// must still count the levels), far beyond the limit: the depth limit is what keeps the recursive decoders from
	// exhausting the goroutine stack, so these run with the stack capped at 256 MB - a decoder within the 10,000-level
	// limit needs a few MB - and a process that dies here is recorded through the CRASH file (never deleted on death)
	oldMax := debug.SetMaxStack(256 << 20)
	for i, o := range []string{"[[],", `{"s":{},"a":`, "[{},", `{"s":[1],"a":[[],`, `[[[]],{"a":[]},`} {
		cl := []string{"]", "}", "]", "]}", "]"}[i]
		for _, n := range []int{10_001, 2_000_000} {
			for _, closed := range []int{0, 1} {
				segs := []seg{{[]byte(o), n}, {[]byte("1"), 1}}
				if closed == 1 {
					segs = append(segs, seg{[]byte(cl), n})
				}
				var cj jb
				cj.raw(`{"op":"total","note":"the process died (fatal error, e.g. goroutine stack exhausted) inside an entry point on this document","segs":`)
				cj.segs(segs)
				cj.raw(`}`)
				crash := filepath.Join(c.outDir, "CRASH")
				os.WriteFile(crash, cj.b, 0o644)
				runTotal(c.sw, &j, expandSegs(segs), segs, c.st)
				os.Remove(crash)
			}
		}
	}
	debug.SetMaxStack(oldMax)
	// megabyte runs of a single token / a single repeated unit
	units := []string{"1", "0", " ", "\n", "a", "\\u0041", "\\n", "\\\\", "\\ud800", "\\udc00", "\\ud83d\\ude00", "\xff", "\x80",
		"e", ".", "-", ",", ":", "\"", "\"\"", "[]", "{}", "[],", "null", "true", "9", "1e", "\\", "\\u", "\t", "\x00"}
	for _, u := range units {
		for _, wrap := range [][2]string{{"", ""}, {`"`, `"`}, {`"`, ""}, {"[", "]"}, {`{"a":"`, `"}`}, {"0.", ""}, {"1e", ""}, {"-", ""}, {"[\"", "\"]"}} {
			n := runLen / len(u)
			if !c.thorough() {
				n /= 4
			}
			segs := []seg{{[]byte(wrap[0]), 1}, {[]byte(u), n}, {[]byte(wrap[1]), 1}}
			runTotal(c.sw, &j, expandSegs(segs), segs, c.st)
		}
	}
	// numbers: every decimal exponent around the conversion tables' range, every digit count
	for e := -420; e <= 420; e++ {
		for _, m := range []string{"1", "-1.5", "9", "123456789012345678", "12345678901234567890123", "0.000000000000000000001"} {
			runTotal(c.sw, &j, []byte(fmt.Sprintf("%se%d", m, e)), nil, c.st)
		}
	}
	for k := 0; k <= 420; k++ {
		runTotal(c.sw, &j, []byte("1"+strings.Repeat("0", k)), nil, c.st)
		runTotal(c.sw, &j, []byte("0."+strings.Repeat("0", k)+"1"), nil, c.st)
		runTotal(c.sw, &j, []byte("["+strings.Repeat("9", k+1)+"]"), nil, c.st)
	}
	// small hostile inputs: every 1- and 2-byte input over an alphabet of interesting bytes
	alpha := []byte("[]{},:\"\\ \n0123456789-+.eEtfnulrsa/\x00\x1f\x7f\x80\xff")
	runTotal(c.sw, &j, []byte{}, nil, c.st)
	for b := 0; b < 256; b++ {
		runTotal(c.sw, &j, []byte{byte(b)}, nil, c.st)
	}
	for _, a := range alpha {
		for _, b := range alpha {
			runTotal(c.sw, &j, []byte{a, b}, nil, c.st)
			if c.thorough() {
				for _, d := range alpha {
					runTotal(c.sw, &j, []byte{a, b, d}, nil, c.st)
				}
			}
		}
	}
	// random documents and mutations
	n := 2000
	if c.thorough() {
		n = 30000
	}
	for i := 0; i < n; i++ {
		g := &docGen{rng: c.rng, maxDepth: 1 + c.rng.Intn(6), maxWidth: 1 + c.rng.Intn(5),
			wsProb: []float64{0, 0.2}[c.rng.Intn(2)], maxStr: 1 + c.rng.Intn(10), hiBytes: true}
		d := g.doc()
		runTotal(c.sw, &j, d, nil, c.st)
		for k := 0; k < 3; k++ {
			d = mutate(c.rng, d)
			runTotal(c.sw, &j, d, nil, c.st)
		}
	}
	return nil
}

func init() {
	families["total"] = genTotal
	replayers["total"] = func(ev map[string]interface{}) ([]byte, error) {
		var j jb
		data := evInput(ev)
		var segs []seg
		if s, ok := ev["segs"].([]interface{}); ok {
			for _, x := range s {
				p := x.([]interface{})
				segs = append(segs, seg{anyBytes(p[0]), int(p[1].(float64))})
			}
		}
		debug.SetMaxStack(256 << 20) // as in the generator (a few MB suffice within the 10,000-level limit)
		runTotal(nil, &j, data, segs, newStats())
		return append([]byte{}, j.b...), nil
	}
}
