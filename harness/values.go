package main

// Family "values": integer readers (C05), string readers (C06), Decode
// functions (C12), token classification / literal readers (C13), destination
// and scratch semantics (C16), StdLibCompatible string helpers (C17).

import (
	"bytes"
	"fmt"
	"io"
	"math"
	"math/big"
	"strconv"

	"github.com/willabides/rjson"
)

// ---------------------------------------------------------------- integers
func digitsOfU(j *jb, neg bool, v uint64) {
	j.b01(neg)
	for _, c := range strconv.FormatUint(v, 10) {
		j.comma()
		j.int(int(c - '0'))
	}
}

func absI64(v int64) (bool, uint64) {
	if v < 0 {
		return true, uint64(-(v + 1)) + 1
	}
	return false, uint64(v)
}

func guardPanic(panics *int, fn func()) {
	defer func() {
		if r := recover(); r != nil {
			*panics++
		}
	}()
	fn()
}

func runInt(sw *shardWriter, j *jb, data []byte, st *genStats) {
	data = relayout(data)
	orig := append([]byte{}, data...)
	panics := 0
	j.reset()
	j.raw(`{"op":"int","in":`)
	j.bytes(data)
	j.raw(`,"intsize":`)
	j.int(strconv.IntSize)
	j.raw(`,"rows":[`)
	row := func(k int, err error, p int, neg bool, v uint64) {
		if k > 1 {
			j.comma()
		}
		j.raw("[")
		j.int(k)
		j.comma()
		j.b01(err == nil)
		j.comma()
		j.int(p)
		j.comma()
		digitsOfU(j, neg, v)
		j.raw("]")
	}
	guardPanic(&panics, func() {
		v, p, err := rjson.ReadInt64(data)
		n, u := absI64(v)
		row(1, err, p, n, u)
	})
	guardPanic(&panics, func() { v, p, err := rjson.ReadUint64(data); row(2, err, p, false, v) })
	guardPanic(&panics, func() {
		v, p, err := rjson.ReadInt32(data)
		n, u := absI64(int64(v))
		row(3, err, p, n, u)
	})
	guardPanic(&panics, func() { v, p, err := rjson.ReadUint32(data); row(4, err, p, false, uint64(v)) })
	guardPanic(&panics, func() {
		v, p, err := rjson.ReadInt(data)
		n, u := absI64(int64(v))
		row(5, err, p, n, u)
	})
	guardPanic(&panics, func() { v, p, err := rjson.ReadUint(data); row(6, err, p, false, uint64(v)) })
	// Decode forms (the value is what ends up in the target)
	guardPanic(&panics, func() {
		v := int64(-7777)
		p, err := rjson.DecodeInt64(data, &v)
		n, u := absI64(v)
		row(7, err, p, n, u)
	})
	guardPanic(&panics, func() { v := uint64(7777); p, err := rjson.DecodeUint64(data, &v); row(8, err, p, false, v) })
	guardPanic(&panics, func() {
		v := int32(-7777)
		p, err := rjson.DecodeInt32(data, &v)
		n, u := absI64(int64(v))
		row(9, err, p, n, u)
	})
	guardPanic(&panics, func() { v := uint32(7777); p, err := rjson.DecodeUint32(data, &v); row(10, err, p, false, uint64(v)) })
	guardPanic(&panics, func() {
		v := int(-7777)
		p, err := rjson.DecodeInt(data, &v)
		n, u := absI64(int64(v))
		row(11, err, p, n, u)
	})
	guardPanic(&panics, func() { v := uint(7777); p, err := rjson.DecodeUint(data, &v); row(12, err, p, false, uint64(v)) })
	j.raw(`],"panics":`)
	j.int(panics)
	j.raw(`,"unch":`)
	j.b01(bytes.Equal(orig, data))
	j.raw(`}`)
	if panics > 0 {
		j.panicEvent("int", data)
	}
	if sw != nil {
		sw.write(j.b)
	}
	st.note(data, panics > 0)
}

var followBytes = []int{-1, ' ', ',', ']', '}', '.', 'e', 'E', 'x', '0', '5', '-', '+', '\n', 0xff, '"', ':'}

func genInts(c *genCtx, sw *shardWriter, j *jb) {
	emit := func(s string) { runInt(sw, j, []byte(s), c.st) }
	for _, d := range lenientDocs() {
		emit(string(d))
	}
	withFollow := func(lit string, all bool) {
		if all {
			emit(lit)
			for b := 0; b < 256; b++ {
				emit(lit + string([]byte{byte(b)}))
			}
			return
		}
		for _, f := range followBytes {
			if f < 0 {
				emit(lit)
			} else {
				emit(lit + string([]byte{byte(f)}))
			}
		}
	}
	bounds := []*big.Int{}
	for _, e := range []uint{7, 8, 15, 16, 31, 32, 63, 64} {
		bounds = append(bounds, new(big.Int).Lsh(big.NewInt(1), e))
	}
	for _, e := range []int64{9, 10, 17, 18, 19, 20, 21} {
		bounds = append(bounds, new(big.Int).Exp(big.NewInt(10), big.NewInt(e), nil))
	}
	// 2^64/10 neighbourhood: the cutoff used by the unchecked/checked loop switch
	cut := new(big.Int).Div(new(big.Int).Lsh(big.NewInt(1), 64), big.NewInt(10))
	bounds = append(bounds, cut, new(big.Int).Mul(cut, big.NewInt(10)))
	w := int64(40)
	if c.thorough() {
		w = 300
	}
	for _, b := range bounds {
		for d := -w; d <= w; d++ {
			v := new(big.Int).Add(b, big.NewInt(d))
			all := c.thorough() && (d >= -2 && d <= 2) || d == 0 || d == -1
			withFollow(v.String(), all)
			withFollow("-"+v.String(), all && c.thorough())
			if d >= -3 && d <= 3 {
				emit(" \t\r\n" + v.String())
				emit("-" + v.String() + "0")
				emit(v.String() + "00")
			}
		}
	}
	for _, s := range []string{"", " ", "0", "-0", "00", "01", "-01", "- 1", "--1", "+1", "-", "- ", "-\n1", "1.0", "1e5", "1E5", "0.5", "0e0",
		"0E0", "0.", "1.", "-0.0", "-0e1", ".5", "e5", "1 .5", "1 e5", "null", "true", "\"1\"", "[1]", "{}", "0x10", "1_000", "１",
		"9223372036854775807", "9223372036854775808", "-9223372036854775808", "-9223372036854775809", "18446744073709551615",
		"18446744073709551616", "2147483647", "2147483648", "-2147483648", "-2147483649", "4294967295", "4294967296",
		"99999999999999999999", "184467440737095516150", "000000000000000000001", "-000"} {
		withFollow(s, c.thorough())
		emit("  " + s)
	}
	// a sign followed by every byte value, then digits (whitespace after the sign is not allowed)
	for b := 0; b < 256; b++ {
		for _, tail := range []string{"7", "0", "12 ", ""} {
			emit("-" + string([]byte{byte(b)}) + tail)
			emit(" -" + string([]byte{byte(b)}) + tail)
			if c.thorough() || b < 0x40 {
				emit("+" + string([]byte{byte(b)}) + tail)
				emit(string([]byte{byte(b)}) + "-" + tail)
			}
		}
	}
	// leading whitespace of every length up to 24 before digit runs of every length up to 24 (to the end of input and not)
	for k := 0; k <= 24; k++ {
		for n := 1; n <= 24; n++ {
			if !c.thorough() && (k+n)%3 != 0 && k+n != 19 && k+n != 18 && n != 18 && n != 19 {
				continue
			}
			ws := string(bytes.Repeat([]byte(" "), k))
			ds := "123456789012345678901234"[:n]
			emit(ws + ds)
			emit(ws + ds + ",")
			emit(ws + "-" + ds)
		}
	}
	for n := 1; n <= 24; n++ {
		for _, d := range []byte("19") {
			s := string(bytes.Repeat([]byte{d}, n))
			withFollow(s, false)
			withFollow("-"+s, false)
			withFollow("1"+string(bytes.Repeat([]byte{'0'}, n)), false)
		}
	}
	digitRunInputs(c.thorough(), func(d []byte) {
		if len(d) > 0 && d[0] != '[' && d[0] != '{' {
			runInt(sw, j, d, c.st)
		}
	})
	nr := 3000
	if c.thorough() {
		nr = 60000
	}
	for i := 0; i < nr; i++ {
		n := 1 + c.rng.Intn(22)
		b := make([]byte, 0, n+2)
		if c.rng.Intn(3) == 0 {
			b = append(b, '-')
		}
		for k := 0; k < n; k++ {
			b = append(b, byte('0'+c.rng.Intn(10)))
		}
		if c.rng.Intn(2) == 0 {
			b = append(b, byte(c.rng.Intn(256)))
		}
		emit(string(b))
	}
}

// ----------------------------------------------------------------- strings
type strEntry struct {
	k             int
	ok            bool
	p             int
	pre, val, pst []byte
}

func (j *jb) strEntries(es []strEntry) {
	j.raw("[")
	for i, e := range es {
		if i > 0 {
			j.comma()
		}
		j.raw(`{"k":`)
		j.int(e.k)
		j.raw(`,"ok":`)
		j.b01(e.ok)
		j.raw(`,"p":`)
		j.int(e.p)
		j.raw(`,"pre":`)
		j.bytes(e.pre)
		j.raw(`,"val":`)
		j.bytes(e.val)
		j.raw(`,"post":`)
		j.bytes(e.pst)
		j.raw("}")
	}
	j.raw("]")
}

func scribble(b []byte) {
	for i := range b {
		b[i] = 0xAA ^ byte(i)
	}
}

// runStr observes every string reader on one input.  dstSlack selects the
// spare capacity of the ReadStringBytes destination.
func runStr(sw *shardWriter, j *jb, input []byte, dstSlack int, st *genStats) {
	orig := append([]byte{}, input...)
	panics := 0
	var es []strEntry
	fresh := func() []byte { return relayoutCopy(input) }
	// 1..3 ReadString with nil / dirty / tiny scratch; later overwrite of input and scratch
	// (7..9: a pointer to a nil slice - the idiomatic `var scratch []byte` -, an empty non-nil one, an empty roomy one)
	for ki, mk := range []func() *[]byte{
		func() *[]byte { return nil },
		func() *[]byte { b := append(make([]byte, 0, 16), "garbage"...); return &b },
		func() *[]byte { b := make([]byte, 1, 1); b[0] = 'Z'; return &b },
		func() *[]byte { var b []byte; return &b },
		func() *[]byte { b := make([]byte, 0); return &b },
		func() *[]byte { b := make([]byte, 0, 64); return &b },
	} {
		k := ki
		if ki >= 3 {
			k = ki + 3
		}
		guardPanic(&panics, func() {
			data := fresh()
			sc := mk()
			v, p, err := rjson.ReadString(data, sc)
			seen := []byte(v)
			scribble(data)
			if sc != nil {
				scribble((*sc)[:cap(*sc)])
			}
			es = append(es, strEntry{k: k + 1, ok: err == nil, p: p, val: seen, pst: []byte(v)})
		})
	}
	// 4 ReadStringBytes(nil)
	guardPanic(&panics, func() {
		data := fresh()
		v, p, err := rjson.ReadStringBytes(data, nil)
		seen := append([]byte{}, v...)
		scribble(data)
		es = append(es, strEntry{k: 4, ok: err == nil, p: p, val: seen, pst: append([]byte{}, v...)})
	})
	// 5 ReadStringBytes(dst with a prefix and chosen spare capacity)
	guardPanic(&panics, func() {
		data := fresh()
		pre := []byte("PRE\x00\xff")
		dst := make([]byte, len(pre), len(pre)+dstSlack)
		copy(dst, pre)
		v, p, err := rjson.ReadStringBytes(data, dst)
		seen := append([]byte{}, v...)
		scribble(data)
		es = append(es, strEntry{k: 5, ok: err == nil, p: p, pre: pre, val: seen, pst: append([]byte{}, v...)})
	})
	// 6 DecodeString
	guardPanic(&panics, func() {
		data := fresh()
		var target string
		sc := append(make([]byte, 0, 4), "zz"...)
		p, err := rjson.DecodeString(data, &target, &sc)
		seen := []byte(target)
		scribble(data)
		scribble(sc[:cap(sc)])
		t := bytes.TrimLeft(orig, " \t\r\n")
		if len(t) == 0 || t[0] != 'n' { // Decode on null is C12's business
			es = append(es, strEntry{k: 6, ok: err == nil, p: p, val: seen, pst: []byte(target)})
		}
	})
	// 10 DecodeString through a pointer to a nil scratch slice
	guardPanic(&panics, func() {
		data := fresh()
		var target string
		var sc []byte
		p, err := rjson.DecodeString(data, &target, &sc)
		seen := []byte(target)
		scribble(data)
		scribble(sc[:cap(sc)])
		t := bytes.TrimLeft(orig, " \t\r\n")
		if len(t) == 0 || t[0] != 'n' {
			es = append(es, strEntry{k: 10, ok: err == nil, p: p, val: seen, pst: []byte(target)})
		}
	})
	j.reset()
	j.raw(`{"op":"str","in":`)
	j.bytes(input)
	j.raw(`,"slack":`)
	j.int(dstSlack)
	j.raw(`,"v":`)
	j.strEntries(es)
	j.raw(`,"panics":`)
	j.int(panics)
	j.raw(`,"unch":`)
	j.b01(bytes.Equal(orig, input))
	j.raw(`}`)
	if sw != nil {
		sw.write(j.b)
	}
	st.note(input, panics > 0)
}

func runUnesc(sw *shardWriter, j *jb, content []byte, pre []byte, slack int, st *genStats) {
	content = relayout(content)
	orig := append([]byte{}, content...)
	panics := 0
	var val, post []byte
	var p int
	var err error
	unchanged := true
	guardPanic(&panics, func() {
		data := append(make([]byte, 0, len(content)), content...)
		var dst []byte // a nil destination when there is no prefix and no slack
		if len(pre) > 0 || slack > 0 {
			dst = make([]byte, len(pre), len(pre)+slack)
			copy(dst, pre)
		}
		var v []byte
		v, p, err = rjson.UnescapeStringContent(data, dst)
		val = append([]byte{}, v...)
		unchanged = bytes.Equal(data, orig)
		scribble(data)
		post = append([]byte{}, v...)
	})
	j.reset()
	j.raw(`{"op":"unesc","in":`)
	j.bytes(content)
	j.raw(`,"pre":`)
	j.bytes(pre)
	j.raw(`,"slack":`)
	j.int(slack)
	j.raw(`,"ok":`)
	j.b01(err == nil && panics == 0)
	j.raw(`,"p":`)
	j.int(p)
	j.raw(`,"val":`)
	j.bytes(val)
	j.raw(`,"post":`)
	j.bytes(post)
	j.raw(`,"panics":`)
	j.int(panics)
	j.raw(`,"unch":`)
	j.b01(unchanged && bytes.Equal(orig, content))
	j.raw(`}`)
	if sw != nil {
		sw.write(j.b)
	}
	st.noteKey("unesc"+string(content)+string(pre)+fmt.Sprint(slack), len(content) > 0)
}

func genStrings(c *genCtx, sw *shardWriter, j *jb) {
	slacks := []int{0, 1, 2, 3, 7, 64}
	emit := func(in []byte) {
		runStr(sw, j, in, slacks[c.rng.Intn(len(slacks))], c.st)
		// the bytes between the quotes, on their own
		t := bytes.TrimLeft(in, " \t\r\n")
		if len(t) >= 1 && t[0] == '"' && c.rng.Intn(4) == 0 {
			// everything after the opening quote, closing quote and tail included (not well-formed
			// content: only totality applies, and it reaches the machine's rejecting transitions)
			runUnesc(sw, j, t[1:], []byte{}, 0, c.st)
		}
		if len(t) >= 2 && t[0] == '"' {
			if e := bytes.LastIndexByte(t, '"'); e > 0 {
				runUnesc(sw, j, t[1:e], []byte{}, slacks[c.rng.Intn(len(slacks))], c.st)
				runUnesc(sw, j, t[1:e], nil, 0, c.st) // nil destination
				runUnesc(sw, j, t[1:e], []byte("P\xfe"), slacks[c.rng.Intn(len(slacks))], c.st)
			}
		}
	}
	for _, d := range lenientDocs() {
		emit(d)
	}
	// spec states at top level inside a string token (and every transition into one) x all bytes x continuations
	if c.statesPath != "" {
		if ss, err := loadStates(c.statesPath); err == nil {
			mem := classMembers(ss)
			conts := [][]byte{[]byte("5"), []byte(`"`), []byte(`n"`), []byte(`0"`), []byte(`000"`)}
			if c.thorough() {
				conts = tokenCompletions(ss)
			}
			for _, base := range sweepBases(ss, true, c.thorough(), c.rng) {
				s := base.st
				if s.Out != "run" || s.D != 0 {
					continue
				}
				if s.K != "S" && s.K != "SE" && s.K != "SU" && s.K != "V0" {
					continue
				}
				o := sweepOpts{allBytes: !base.edge || c.thorough(), stop: true, rejectConts: conts, rejectAll: c.thorough()}
				forSweepInputs(ss, mem, base, o, c.rng, func(in []byte, viable bool) {
					emit(in)
					if viable && c.rng.Intn(4) == 0 {
						emit(append(append([]byte{}, in...), 'x'))
					}
				})
			}
		}
	}
	// \u sweep
	step := 16
	if c.thorough() {
		step = 1
	}
	for u := 0; u < 0x10000; u += step {
		v := u
		if step > 1 {
			v = u + c.rng.Intn(step)
		}
		emit([]byte(fmt.Sprintf(`"\u%04x"`, v)))
		if c.thorough() || u%256 == 0 {
			emit([]byte(fmt.Sprintf(`"a\u%04Xb"`, v)))
		}
	}
	for _, v := range []int{0, 0x1f, 0x20, 0x22, 0x5c, 0x7f, 0x80, 0x7ff, 0x800, 0xd7ff, 0xd800, 0xdbff, 0xdc00, 0xdfff, 0xe000, 0xfffd, 0xfffe, 0xffff} {
		emit([]byte(fmt.Sprintf(`"\u%04x"`, v)))
		emit([]byte(fmt.Sprintf(`"\u%04X\u%04x"`, v, v)))
	}
	// surrogate grid
	his := []int{0xd800, 0xd801, 0xdbfe, 0xdbff}
	los := []int{0xdc00, 0xdc01, 0xdffe, 0xdfff}
	hstep, lstep := 37, 41
	if c.thorough() {
		hstep, lstep = 1, 1
	}
	for h := 0xd800; h <= 0xdbff; h += hstep {
		for _, l := range append(los, 0xdc00+c.rng.Intn(0x400)) {
			emit([]byte(fmt.Sprintf(`"\u%04x\u%04x"`, h, l)))
		}
		emit([]byte(fmt.Sprintf(`"\u%04x\u%04x"`, h, h)))
		emit([]byte(fmt.Sprintf(`"\u%04xA"`, h)))
		emit([]byte(fmt.Sprintf(`"\u%04x"`, h)))
		emit([]byte(fmt.Sprintf(`"\u%04xA"`, h)))
	}
	for l := 0xdc00; l <= 0xdfff; l += lstep {
		for _, h := range append(his, 0xd800+c.rng.Intn(0x400)) {
			emit([]byte(fmt.Sprintf(`"\u%04x\u%04X"`, h, l)))
			emit([]byte(fmt.Sprintf(`"\u%04x\u%04x"`, l, h)))
		}
	}
	// pairs broken by every byte, at every position of the second escape
	pair := `"\ud83d\ude00"`
	for pos := 1; pos < len(pair); pos++ {
		for b := 0; b < 256; b++ {
			if !c.thorough() && pos > 8 && b%5 != 0 {
				continue
			}
			x := []byte(pair)
			x[pos] = byte(b)
			emit(x)
			y := append(append(append([]byte{}, pair[:pos]...), byte(b)), pair[pos:]...)
			emit(y)
		}
		emit([]byte(pair[:pos]))
		emit([]byte(pair[:pos] + `"`))
	}
	// every byte value at every position of templates (incl. invalid UTF-8)
	for _, tpl := range []string{`"abc"`, `"a\nb"`, `"éx"`, ` "é€😀" `, `"\\\""`} {
		for pos := 0; pos <= len(tpl); pos++ {
			for b := 0; b < 256; b++ {
				if !c.thorough() && b > 0x22 && b < 0x5b && b%7 != 0 {
					continue
				}
				if pos < len(tpl) {
					x := []byte(tpl)
					x[pos] = byte(b)
					emit(x)
				}
				emit(append(append(append([]byte{}, tpl[:pos]...), byte(b)), tpl[pos:]...))
			}
		}
	}
	// growth boundaries: content lengths x destination slack, escapes at the ends
	lens := []int{0, 1, 2, 3, 4, 5, 7, 8, 9, 15, 16, 17, 31, 32, 33, 63, 64, 65, 127, 128, 129, 255, 256, 257, 1023, 1024, 1025, 4095, 4096}
	for _, n := range lens {
		if n > 300 && !c.thorough() && n != 1024 {
			continue
		}
		body := bytes.Repeat([]byte("x"), n)
		for _, shape := range []string{"%s", `\n%s`, `%s\n`, `é%s`, `%s😀`, `%s\ud800`, "\xff%s", `%s\\`} {
			in := []byte(`"` + fmt.Sprintf(shape, body) + `"`)
			for _, sl := range []int{0, 1, n - 1, n, n + 1, n + 2, n + 5, 2 * n} {
				if sl < 0 {
					continue
				}
				runStr(sw, j, in, sl, c.st)
				runUnesc(sw, j, in[1:len(in)-1], []byte("Q"), sl, c.st)
			}
		}
	}
	// string runs: runs of every length followed by every kind of element (block boundaries of copiers and scanners)
	stringRunInputs(c.thorough(), 17, func(t []byte, k int) {
		if k > 40 || len(t)%3 == 0 || c.thorough() {
			emit(t)
		}
	})
	// random strings
	n := 4000
	if c.thorough() {
		n = 60000
	}
	g := &docGen{rng: c.rng, maxStr: 24, hiBytes: true}
	for i := 0; i < n; i++ {
		g.maxStr = 1 + c.rng.Intn(40)
		s := g.str(nil)
		if c.rng.Intn(4) == 0 {
			s = append([]byte(" \n"), s...)
		}
		if c.rng.Intn(3) == 0 {
			s = append(s, ",x"[c.rng.Intn(2)])
		}
		emit(s)
		if c.rng.Intn(2) == 0 {
			emit(mutate(c.rng, s))
		}
	}
	// raw content that is not a token at all
	for _, s := range []string{``, `\`, `\u`, `\u12`, `\u123g`, `"`, `a"b`, "a\x00b", `\'`, `\x`, `\ud800\u`, `\ud800\udc0`} {
		runUnesc(sw, j, []byte(s), []byte{}, 0, c.st)
	}
}

func s2b(v []int) []byte { return toBytes(v) }

// ------------------------------------------------------------------ tokens
func errClass(err error) int {
	if err == nil {
		return 0
	}
	if err == io.EOF {
		return 1
	}
	return 2
}

func runTok(sw *shardWriter, j *jb, data []byte, st *genStats) {
	data = relayout(data)
	orig := append([]byte{}, data...)
	panics := 0
	j.reset()
	j.raw(`{"op":"tok","in":`)
	j.bytes(data)
	guardPanic(&panics, func() {
		t, p, err := rjson.NextToken(data)
		j.raw(`,"nt":`)
		j.ints([]int{int(t), p, errClass(err)})
	})
	guardPanic(&panics, func() {
		t, p, err := rjson.NextTokenType(data)
		j.raw(`,"ntt":`)
		j.ints([]int{int(t), p, errClass(err)})
	})
	guardPanic(&panics, func() {
		v, p, err := rjson.ReadBool(data)
		j.raw(`,"rb":`)
		j.ints([]int{b2i(err == nil), p, b2i(v)})
	})
	guardPanic(&panics, func() {
		p, err := rjson.ReadNull(data)
		j.raw(`,"rn":`)
		j.ints([]int{b2i(err == nil), p})
	})
	// TokenType.String for the type just reported and for the raw value of the first byte (any of the 256 values)
	guardPanic(&panics, func() {
		t, _, _ := rjson.NextTokenType(data)
		raw := 0
		if len(data) > 0 {
			raw = int(data[0])
		}
		j.raw(`,"tn":[{"t":`)
		j.int(int(t))
		j.raw(`,"s":`)
		j.str(t.String())
		j.raw(`},{"t":`)
		j.int(raw)
		j.raw(`,"s":`)
		j.str(rjson.TokenType(raw).String())
		j.raw(`}]`)
	})
	j.raw(`,"ex":[`)
	first := true
	ex := func(class int, fn func() error) {
		guardPanic(&panics, func() {
			err := fn()
			if !first {
				j.comma()
			}
			first = false
			j.ints([]int{class, b2i(err == nil)})
		})
	}
	ex(1, func() error { _, err := rjson.ReadNull(data); return err })
	ex(2, func() error { _, _, err := rjson.ReadString(data, nil); return err })
	ex(2, func() error { _, _, err := rjson.ReadStringBytes(data, nil); return err })
	ex(3, func() error { _, _, err := rjson.ReadInt64(data); return err })
	ex(3, func() error { _, _, err := rjson.ReadInt32(data); return err })
	ex(3, func() error { _, _, err := rjson.ReadInt(data); return err })
	ex(3, func() error { _, _, err := rjson.ReadUint64(data); return err })
	ex(3, func() error { _, _, err := rjson.ReadUint32(data); return err })
	ex(3, func() error { _, _, err := rjson.ReadUint(data); return err })
	ex(3, func() error { _, _, err := rjson.ReadFloat64(data); return err })
	ex(4, func() error { _, _, err := rjson.ReadBool(data); return err })
	ex(6, func() error { _, _, err := rjson.ReadObject(data); return err })
	ex(8, func() error { _, _, err := rjson.ReadArray(data); return err })
	// the typed methods of a ValueReader, new and with a history (the history is part of the observer, so a
	// replay recreates it): after a successful read, after failed reads of each kind, after type mismatches
	for _, h := range tokReaderHistories {
		h := h
		ex(6, func() error { r := &rjson.ValueReader{}; h(r); _, _, err := r.ReadObject(data); return err })
		ex(8, func() error { r := &rjson.ValueReader{}; h(r); _, _, err := r.ReadArray(data); return err })
		ex(6, func() error {
			r := &rjson.ValueReader{}
			h(r)
			r.ReadArray(data)
			_, _, err := r.ReadObject(data)
			return err
		})
		ex(8, func() error {
			r := &rjson.ValueReader{}
			h(r)
			r.ReadObject(data)
			_, _, err := r.ReadArray(data)
			return err
		})
	}
	j.raw(`],"panics":`)
	j.int(panics)
	j.raw(`,"unch":`)
	j.b01(bytes.Equal(orig, data))
	j.raw(`}`)
	if panics > 0 {
		j.panicEvent("tok", data)
	}
	if sw != nil {
		sw.write(j.b)
	}
	st.note(data, panics > 0)
}

var tokReaderHistories = []func(r *rjson.ValueReader){
	func(r *rjson.ValueReader) {},
	func(r *rjson.ValueReader) { r.ReadValue([]byte(`{"a":[1,{"b":2}],"c":{}}`)) },
	func(r *rjson.ValueReader) { r.ReadArray([]byte(`[1,[2,`)) },
	func(r *rjson.ValueReader) { r.ReadObject([]byte(`{"a":{"b":`)) },
	func(r *rjson.ValueReader) { r.ReadValue([]byte(`[[[[1,]]]]`)) },
	func(r *rjson.ValueReader) { r.ReadArray([]byte(`1`)); r.ReadObject([]byte(`"x"`)) },
	func(r *rjson.ValueReader) {
		r.ReadArray([]byte(`[`))
		r.ReadArray([]byte(`[{"a":`))
		r.ReadObject([]byte(`{"a"`))
	},
}

func wsPrefixes(maxLen int) [][]byte {
	ws := []byte(" \t\r\n")
	out := [][]byte{{}}
	level := [][]byte{{}}
	for l := 0; l < maxLen; l++ {
		var next [][]byte
		for _, p := range level {
			for _, w := range ws {
				next = append(next, append(append([]byte{}, p...), w))
			}
		}
		out = append(out, next...)
		level = next
	}
	return out
}

func genToks(c *genCtx, sw *shardWriter, j *jb) {
	emit := func(b []byte) { runTok(sw, j, b, c.st) }
	// every byte value after every whitespace prefix of length <= 3 (exhaustive)
	pres := wsPrefixes(3)
	for _, p := range pres {
		emit(p)
		for b := 0; b < 256; b++ {
			emit(append(append([]byte{}, p...), byte(b)))
		}
	}
	for _, d := range lenientDocs() {
		emit(d)
	}
	// non-JSON whitespace look-alikes in front of a token
	for _, w := range []byte{0x0b, 0x0c, 0x00, 0x85, 0xa0, 0x1f, 0x7f} {
		for _, t := range []string{"1", "null", "true", `"s"`, "[", "{"} {
			emit(append([]byte{w}, t...))
			emit(append(append([]byte{' '}, w), t...))
		}
	}
	// literals: every one-byte corruption, every truncation, every following byte
	for _, lit := range []string{"true", "false", "null"} {
		for _, p := range [][]byte{{}, {' '}, {'\n', '\t'}, {'\r', ' ', ' '}} {
			full := append(append([]byte{}, p...), lit...)
			for cut := len(p); cut <= len(full); cut++ {
				emit(full[:cut])
			}
			for pos := len(p); pos < len(full); pos++ {
				for b := 0; b < 256; b++ {
					x := append([]byte{}, full...)
					x[pos] = byte(b)
					emit(x)
				}
			}
			for b := 0; b < 256; b++ {
				emit(append(append([]byte{}, full...), byte(b)))
			}
			emit(append(append([]byte{}, full...), lit...))
		}
	}
	// whitespace runs of every length up to 17 followed by every byte value, then a token and padding:
	// word-at-a-time scanners are wrong only at particular alignments and input lengths
	wsAlphabets := [][]byte{[]byte(" "), []byte("\t"), []byte("\n"), []byte("\r"), []byte(" \t"), []byte("\r\n"), []byte(" \t\r\n")}
	for k := 0; k <= 17; k++ {
		for ai, al := range wsAlphabets {
			if !c.thorough() && ai > 0 && (k+ai)%3 != 0 {
				continue
			}
			run := make([]byte, k)
			for i := range run {
				run[i] = al[i%len(al)]
			}
			for b := 0; b < 256; b++ {
				for _, tail := range []string{"", "null      ", "1,2,3,4,5,6,7,8"} {
					x := append(append(append([]byte{}, run...), byte(b)), tail...)
					emit(x)
				}
				// the byte in the middle of a run
				if k >= 2 && (c.thorough() || b < 0x30) {
					x := append([]byte{}, run...)
					x[k/2] = byte(b)
					emit(append(x, "true        "...))
				}
			}
		}
	}
	// literals (intact and with one wrong byte) followed by padding of several lengths
	for _, lit := range []string{"true", "false", "null"} {
		for _, pad := range []string{"", ",1", "       ", "        ", "                 ", ",[1,2,3,4,5,6,7]"} {
			for _, pre := range []string{"", " ", "        "} {
				emit([]byte(pre + lit + pad))
				for pos := 0; pos < len(lit); pos++ {
					for _, b := range []byte("aeflnrstuyTFN \x00") {
						x := []byte(pre + lit + pad)
						x[len(pre)+pos] = b
						emit(x)
					}
				}
				for cut := 1; cut < len(lit); cut++ {
					for b := 0; b < 256; b += 1 {
						if !c.thorough() && b%9 != 0 && b != 'e' && b != 'y' && b != 's' && b != 'l' {
							continue
						}
						emit([]byte(pre + lit[:cut] + string([]byte{byte(b)}) + pad))
					}
				}
			}
		}
	}
	// first-token zoo for type exclusivity
	for _, s := range []string{"0", "-1", "1.5", "1e3", "-", `""`, `"a"`, `"\n"`, "[]", "[1]", "{}", `{"a":1}`, "]", "}", ",", ":", "nul", "tru",
		"fals", "n", "t", "f", "truefalse", "nullnull", "0null", `"x"1`, "[", "{", `"`, "1 2", "-0", "00"} {
		for _, p := range [][]byte{{}, {' '}, {'\n'}} {
			emit(append(append([]byte{}, p...), s...))
		}
	}
	n := 1000
	if c.thorough() {
		n = 20000
	}
	for i := 0; i < n; i++ {
		g := &docGen{rng: c.rng, maxDepth: 2, maxWidth: 2, wsProb: 0.3, maxStr: 4, hiBytes: true}
		d := g.doc()
		emit(d)
		emit(mutate(c.rng, d))
	}
}

// ------------------------------------------------------------------ decode
// values are logged as flat int sequences, compared for equality only
func encI(v int64) []int {
	n, u := absI64(v)
	out := []int{b2i(n)}
	for _, c := range strconv.FormatUint(u, 10) {
		out = append(out, int(c-'0'))
	}
	return out
}
func encU(v uint64) []int {
	out := []int{0}
	for _, c := range strconv.FormatUint(v, 10) {
		out = append(out, int(c-'0'))
	}
	return out
}
func encF(v float64) []int {
	b := math.Float64bits(v)
	return []int{int(b >> 48), int(b >> 32 & 0xffff), int(b >> 16 & 0xffff), int(b & 0xffff)}
}
func encS(v string) []int {
	out := make([]int, len(v))
	for i := 0; i < len(v); i++ {
		out[i] = int(v[i])
	}
	return out
}

type decodeFn struct {
	name string
	// run returns reader outcome and, for each of two priors, the decode outcome
	run func(data []byte) (rdOK bool, rdP int, rdVal []int, runs [][3]interface{})
}

func decRun(prior []int, p int, err error, after []int) [3]interface{} {
	return [3]interface{}{prior, []int{b2i(err == nil), p}, after}
}

var decodeFns = []decodeFn{
	{"DecodeBool", func(d []byte) (bool, int, []int, [][3]interface{}) {
		v, p, err := rjson.ReadBool(d)
		var runs [][3]interface{}
		for _, pr := range []bool{true, false} {
			t := pr
			dp, derr := rjson.DecodeBool(d, &t)
			runs = append(runs, decRun([]int{b2i(pr)}, dp, derr, []int{b2i(t)}))
		}
		return err == nil, p, []int{b2i(v)}, runs
	}},
	{"DecodeFloat64", func(d []byte) (bool, int, []int, [][3]interface{}) {
		v, p, err := rjson.ReadFloat64(d)
		var runs [][3]interface{}
		for _, pr := range []float64{-12345.678, math.Inf(1), 0, math.Copysign(0, -1)} {
			t := pr
			dp, derr := rjson.DecodeFloat64(d, &t)
			runs = append(runs, decRun(encF(pr), dp, derr, encF(t)))
		}
		return err == nil, p, encF(v), runs
	}},
	{"DecodeInt64", func(d []byte) (bool, int, []int, [][3]interface{}) {
		v, p, err := rjson.ReadInt64(d)
		var runs [][3]interface{}
		for _, pr := range []int64{-987654321, math.MaxInt64, 0} {
			t := pr
			dp, derr := rjson.DecodeInt64(d, &t)
			runs = append(runs, decRun(encI(pr), dp, derr, encI(t)))
		}
		return err == nil, p, encI(v), runs
	}},
	{"DecodeInt32", func(d []byte) (bool, int, []int, [][3]interface{}) {
		v, p, err := rjson.ReadInt32(d)
		var runs [][3]interface{}
		for _, pr := range []int32{-98765, math.MaxInt32, 0} {
			t := pr
			dp, derr := rjson.DecodeInt32(d, &t)
			runs = append(runs, decRun(encI(int64(pr)), dp, derr, encI(int64(t))))
		}
		return err == nil, p, encI(int64(v)), runs
	}},
	{"DecodeInt", func(d []byte) (bool, int, []int, [][3]interface{}) {
		v, p, err := rjson.ReadInt(d)
		var runs [][3]interface{}
		for _, pr := range []int{-98765, math.MaxInt, 0} {
			t := pr
			dp, derr := rjson.DecodeInt(d, &t)
			runs = append(runs, decRun(encI(int64(pr)), dp, derr, encI(int64(t))))
		}
		return err == nil, p, encI(int64(v)), runs
	}},
	{"DecodeUint64", func(d []byte) (bool, int, []int, [][3]interface{}) {
		v, p, err := rjson.ReadUint64(d)
		var runs [][3]interface{}
		for _, pr := range []uint64{987654321, math.MaxUint64, 0} {
			t := pr
			dp, derr := rjson.DecodeUint64(d, &t)
			runs = append(runs, decRun(encU(pr), dp, derr, encU(t)))
		}
		return err == nil, p, encU(v), runs
	}},
	{"DecodeUint32", func(d []byte) (bool, int, []int, [][3]interface{}) {
		v, p, err := rjson.ReadUint32(d)
		var runs [][3]interface{}
		for _, pr := range []uint32{98765, math.MaxUint32, 0} {
			t := pr
			dp, derr := rjson.DecodeUint32(d, &t)
			runs = append(runs, decRun(encU(uint64(pr)), dp, derr, encU(uint64(t))))
		}
		return err == nil, p, encU(uint64(v)), runs
	}},
	{"DecodeUint", func(d []byte) (bool, int, []int, [][3]interface{}) {
		v, p, err := rjson.ReadUint(d)
		var runs [][3]interface{}
		for _, pr := range []uint{98765, math.MaxUint, 0} {
			t := pr
			dp, derr := rjson.DecodeUint(d, &t)
			runs = append(runs, decRun(encU(uint64(pr)), dp, derr, encU(uint64(t))))
		}
		return err == nil, p, encU(uint64(v)), runs
	}},
	{"DecodeString", func(d []byte) (bool, int, []int, [][3]interface{}) {
		v, p, err := rjson.ReadString(d, nil)
		var runs [][3]interface{}
		for i, pr := range []string{"prior-1", "другой", ""} {
			t := pr
			var sc *[]byte
			if i == 1 {
				b := []byte("dirty")
				sc = &b
			}
			dp, derr := rjson.DecodeString(d, &t, sc)
			runs = append(runs, decRun(encS(pr), dp, derr, encS(t)))
		}
		return err == nil, p, encS(v), runs
	}},
}

func runDecode(sw *shardWriter, j *jb, fi int, data []byte, st *genStats) {
	data = relayout(data)
	orig := append([]byte{}, data...)
	panics := 0
	var rdOK bool
	var rdP int
	var rdVal []int
	var runs [][3]interface{}
	guardPanic(&panics, func() { rdOK, rdP, rdVal, runs = decodeFns[fi].run(data) })
	j.reset()
	j.raw(`{"op":"decode","fn":`)
	j.int(fi + 1)
	j.raw(`,"name":`)
	j.str(decodeFns[fi].name)
	j.raw(`,"in":`)
	j.bytes(data)
	j.raw(`,"rd":`)
	j.ints([]int{b2i(rdOK), rdP})
	j.raw(`,"rdval":`)
	j.ints(rdVal)
	j.raw(`,"runs":[`)
	for i, r := range runs {
		if i > 0 {
			j.comma()
		}
		res := r[1].([]int)
		j.raw(`{"prior":`)
		j.ints(r[0].([]int))
		j.raw(`,"ok":`)
		j.int(res[0])
		j.raw(`,"p":`)
		j.int(res[1])
		j.raw(`,"after":`)
		j.ints(r[2].([]int))
		j.raw(`}`)
	}
	j.raw(`],"panics":`)
	j.int(panics)
	j.raw(`,"unch":`)
	j.b01(bytes.Equal(orig, data))
	j.raw(`}`)
	if sw != nil {
		sw.write(j.b)
	}
	st.noteKey(decodeFns[fi].name+string(data), len(data) > 1)
}

// runDecSeq: a sequence of DecodeString calls into the same target with the same scratch buffer.
func runDecSeq(sw *shardWriter, j *jb, inputs [][]byte, st *genStats) {
	target := "initial"
	scratch := make([]byte, 0, 4)
	panics := 0
	j.reset()
	j.raw(`{"op":"decseq","prior":`)
	j.ints(encS(target))
	j.raw(`,"steps":[`)
	key := ""
	for i, in := range inputs {
		data := append([]byte{}, in...)
		var rv string
		var rp, p int
		var rerr, err error
		guardPanic(&panics, func() { rv, rp, rerr = rjson.ReadString(append([]byte{}, in...), nil) })
		guardPanic(&panics, func() { p, err = rjson.DecodeString(data, &target, &scratch) })
		scribble(data)
		if i > 0 {
			j.comma()
		}
		j.raw(`{"in":`)
		j.bytes(in)
		j.raw(`,"rd":`)
		j.ints([]int{b2i(rerr == nil), rp})
		j.raw(`,"rdval":`)
		j.ints(encS(rv))
		j.raw(`,"ok":`)
		j.b01(err == nil)
		j.raw(`,"p":`)
		j.int(p)
		j.raw(`,"after":`)
		j.ints(encS(target))
		j.raw(`}`)
		key += string(in) + "|"
	}
	j.raw(`],"panics":`)
	j.int(panics)
	j.raw(`}`)
	if panics > 0 {
		j.panicEvent("decseq", inputs[0])
	}
	if sw != nil {
		sw.write(j.b)
	}
	st.noteKey("decseq"+key, true)
}

func genDecodes(c *genCtx, sw *shardWriter, j *jb) {
	// sequences into one target with one scratch buffer: success, then failures and nulls
	seqPool := []string{`"a\nb"`, `"plain"`, `"\u00e9\t"`, `"x\ty`, `"\q"`, `"abc`, `null`, ` null`, `nul`, `1`, `"😀\ud83d\ude00"`, `""`, `"\"`, `"long\nstring with escapes\t and more"`,
		"\"a\x01b\"", `"\ud800"`, `"\u12"`, `"ok"`}
	ns := 400
	if c.thorough() {
		ns = 6000
	}
	for i := 0; i < ns; i++ {
		n := 2 + c.rng.Intn(4)
		var ins [][]byte
		for k := 0; k < n; k++ {
			ins = append(ins, []byte(seqPool[c.rng.Intn(len(seqPool))]))
		}
		runDecSeq(sw, j, ins, c.st)
	}
	for _, a := range seqPool {
		for _, b := range seqPool {
			runDecSeq(sw, j, [][]byte{[]byte(a), []byte(b)}, c.st)
		}
	}
	inputs := []string{"null", " null", "\n\tnull ", "nul", "nullx", "null,", "NULL", "n", "nulL", "", " ", "nu ll",
		"true", "false", " true", "tru", "truex", "1", "-1", "0", "-0", "1.5", "1e3", "1e400", "-1e400", "1e", "1.", "-", "01",
		"2147483647", "2147483648", "-2147483649", "4294967296", "9223372036854775808", "18446744073709551616", "99999999999999999999",
		`""`, `"a"`, `"\n"`, `"😀"`, `"\ud800"`, `"abc`, "\"a\x01\"", `"\x"`, "\"\xff\"", "[]", "{}", "[null]", `"null"`,
		"0.1", "123456789012345678901234567890", "5e-324", "2.5e-324", "1.7976931348623157e308", "1.7976931348623159e308"}
	for _, s := range inputs {
		for fi := range decodeFns {
			runDecode(sw, j, fi, []byte(s), c.st)
			runDecode(sw, j, fi, []byte(" "+s+" "), c.st)
			runDecode(sw, j, fi, []byte(s+",1"), c.st)
		}
	}
	for di, d := range lenientDocs() {
		for fi := range decodeFns {
			if c.thorough() || (di+fi)%4 == 0 {
				runDecode(sw, j, fi, d, c.st)
			}
		}
	}
	// something a reader gives up on, immediately followed by null (and by other literals)
	alpha := []byte("-+.eEtfn\"\\u0123456789 [{]},:x\x00\xff")
	for _, lit := range []string{"null", "true", "1", "\"s\""} {
		for _, a := range alpha {
			for fi := range decodeFns {
				runDecode(sw, j, fi, append([]byte{a}, lit...), c.st)
			}
			for _, b := range alpha {
				if c.thorough() || lit == "null" {
					fi := c.rng.Intn(len(decodeFns))
					runDecode(sw, j, fi, append([]byte{a, b}, lit...), c.st)
					if a == '"' || a == 't' || a == 'f' || a == '-' {
						for fj := range decodeFns {
							runDecode(sw, j, fj, append([]byte{a, b}, lit...), c.st)
						}
					}
				}
			}
		}
	}
	for _, p := range []string{"tr", "tru", "fa", "fal", "fals", "nu", "nul", "\"\\u", "\"\\u0", "\"\\u00", "\"\\u000", "\"a", "\"\\", "1e", "1.", "-0.", "1e+", "0e-"} {
		for fi := range decodeFns {
			runDecode(sw, j, fi, []byte(p+"null"), c.st)
			runDecode(sw, j, fi, []byte(" "+p+"null "), c.st)
		}
	}
	// null literal corruptions for every function
	for pos := 0; pos < 4; pos++ {
		for b := 0; b < 256; b++ {
			x := []byte("null")
			x[pos] = byte(b)
			for fi := range decodeFns {
				if c.thorough() || (b+fi)%3 == 0 {
					runDecode(sw, j, fi, x, c.st)
				}
			}
		}
	}
	n := 1500
	if c.thorough() {
		n = 25000
	}
	g := &docGen{rng: c.rng, maxDepth: 1, maxWidth: 2, wsProb: 0.2, maxStr: 6, hiBytes: true}
	for i := 0; i < n; i++ {
		d := g.doc()
		if c.rng.Intn(2) == 0 {
			d = mutate(c.rng, d)
		}
		runDecode(sw, j, c.rng.Intn(len(decodeFns)), d, c.st)
	}
}

// ---------------------------------------------------------------- sanitize
func runSan(sw *shardWriter, j *jb, data []byte, pre []byte, slack int, st *genStats) {
	data = relayout(data)
	orig := append([]byte{}, data...)
	panics := 0
	var s string
	var sb []byte
	guardPanic(&panics, func() { s = rjson.StdLibCompatibleString(string(data)) })
	guardPanic(&panics, func() {
		dst := make([]byte, len(pre), len(pre)+slack)
		copy(dst, pre)
		sb = rjson.StdLibCompatibleStringBytes(data, dst)
	})
	j.reset()
	j.raw(`{"op":"san","in":`)
	j.bytes(data)
	j.raw(`,"s":`)
	j.bytes([]byte(s))
	j.raw(`,"pre":`)
	j.bytes(pre)
	j.raw(`,"slack":`)
	j.int(slack)
	j.raw(`,"sb":`)
	j.bytes(sb)
	j.raw(`,"panics":`)
	j.int(panics)
	j.raw(`,"unch":`)
	j.b01(bytes.Equal(orig, data))
	j.raw(`}`)
	if sw != nil {
		sw.write(j.b)
	}
	st.note(data, panics > 0)
}

// first and last byte of each UTF-8 lead/trail range (Unicode table 3-7)
var utf8Boundary = []byte{0x00, 0x7f, 0x80, 0x8f, 0x90, 0x9f, 0xa0, 0xbf, 0xc0, 0xc1, 0xc2, 0xdf, 0xe0, 0xe1, 0xec, 0xed, 0xee, 0xef,
	0xf0, 0xf1, 0xf3, 0xf4, 0xf5, 0xf7, 0xf8, 0xfb, 0xfc, 0xff}

func genSan(c *genCtx, sw *shardWriter, j *jb) {
	pres := [][]byte{{}, []byte("ab"), {0xff}, bytes.Repeat([]byte("p"), 64), bytes.Repeat([]byte("q"), 250)}
	slacks := []int{0, 1, 2, 3, 4, 5, 6, 8, 16}
	nEmit := 0
	emit := func(b []byte) {
		nEmit++
		if len(b) == 1 || len(b) == 2 && bytes.IndexByte(utf8Boundary, b[0]) >= 0 && bytes.IndexByte(utf8Boundary, b[1]) >= 0 || nEmit%64 == 0 {
			// every destination shape (contents short and long, free room 0..8 and ample, and room for exactly
			// the result minus 0..3): in-place writers are wrong only for particular amounts of free room
			for _, pre := range pres {
				for _, sl := range slacks {
					runSan(sw, j, b, pre, sl, c.st)
				}
				for d := 0; d <= 3; d++ {
					if k := 3*len(b) - d; k > 16 {
						runSan(sw, j, b, pre, k, c.st)
					}
				}
			}
			return
		}
		runSan(sw, j, b, pres[c.rng.Intn(len(pres))], slacks[c.rng.Intn(len(slacks))], c.st)
	}
	// long inputs: a valid multi-byte rune (or a truncated one) straddling every offset around the powers of two, with an
	// invalid byte nowhere / at the start / at the end / right before the rune (converters working in blocks or windows)
	for _, p := range []int{8, 16, 32, 64, 128, 256, 512, 1024, 2048, 4096} {
		if p > 1024 && !c.thorough() {
			continue
		}
		for d := 0; d <= 4; d++ {
			for _, r := range []string{"é", "€", "😀", "\xe2\x82", "\xf0\x9f\x98", "\xff"} {
				for bad := 0; bad < 4; bad++ {
					b := bytes.Repeat([]byte("a"), p-d)
					switch bad {
					case 1:
						b[0] = 0xff
					case 3:
						if len(b) > 0 {
							b[len(b)-1] = 0x80
						}
					}
					b = append(append(b, r...), "tail"...)
					if bad == 2 {
						b = append(b, 0xc3)
					}
					emit(b)
				}
			}
		}
	}
	emit([]byte{})
	for a := 0; a < 256; a++ {
		emit([]byte{byte(a)})
		for b := 0; b < 256; b++ {
			emit([]byte{byte(a), byte(b)})
		}
	}
	for _, a := range utf8Boundary {
		for _, b := range utf8Boundary {
			for _, d := range utf8Boundary {
				emit([]byte{a, b, d})
				if c.thorough() {
					for _, e := range utf8Boundary {
						emit([]byte{a, b, d, e})
					}
				}
			}
		}
	}
	n := 20000
	if c.thorough() {
		n = 200000
	}
	for i := 0; i < n; i++ {
		l := 3 + c.rng.Intn(10)
		b := make([]byte, l)
		for k := range b {
			switch c.rng.Intn(3) {
			case 0:
				b[k] = utf8Boundary[c.rng.Intn(len(utf8Boundary))]
			case 1:
				b[k] = byte(0x80 + c.rng.Intn(0x80))
			default:
				b[k] = byte(c.rng.Intn(256))
			}
		}
		emit(b)
		// a valid string with one byte damaged
		v := []byte("aé€😀z")
		v[c.rng.Intn(len(v))] = byte(c.rng.Intn(256))
		emit(v)
	}
}

func genValues(c *genCtx) error {
	var j jb
	if c.want("int") {
		setCurrent("values int")
		genInts(c, c.sw, &j)
	}
	if c.want("str") {
		setCurrent("values str")
		genStrings(c, c.sw, &j)
	}
	if c.want("tok") {
		setCurrent("values tok")
		genToks(c, c.sw, &j)
	}
	if c.want("decode") {
		setCurrent("values decode")
		genDecodes(c, c.sw, &j)
	}
	if c.want("san") {
		setCurrent("values san")
		genSan(c, c.sw, &j)
	}
	return nil
}

func init() {
	families["values"] = genValues
	replayers["int"] = func(ev map[string]interface{}) ([]byte, error) {
		var j jb
		runInt(nil, &j, anyBytes(ev["in"]), newStats())
		return append([]byte{}, j.b...), nil
	}
	replayers["str"] = func(ev map[string]interface{}) ([]byte, error) {
		var j jb
		sl, _ := ev["slack"].(float64)
		runStr(nil, &j, anyBytes(ev["in"]), int(sl), newStats())
		return append([]byte{}, j.b...), nil
	}
	replayers["unesc"] = func(ev map[string]interface{}) ([]byte, error) {
		var j jb
		sl, _ := ev["slack"].(float64)
		runUnesc(nil, &j, anyBytes(ev["in"]), anyBytes(ev["pre"]), int(sl), newStats())
		return append([]byte{}, j.b...), nil
	}
	replayers["tok"] = func(ev map[string]interface{}) ([]byte, error) {
		var j jb
		runTok(nil, &j, anyBytes(ev["in"]), newStats())
		return append([]byte{}, j.b...), nil
	}
	replayers["decode"] = func(ev map[string]interface{}) ([]byte, error) {
		var j jb
		runDecode(nil, &j, int(ev["fn"].(float64))-1, anyBytes(ev["in"]), newStats())
		return append([]byte{}, j.b...), nil
	}
	replayers["decseq"] = func(ev map[string]interface{}) ([]byte, error) {
		var j jb
		var ins [][]byte
		if steps, ok := ev["steps"].([]interface{}); ok {
			for _, s := range steps {
				ins = append(ins, anyBytes(s.(map[string]interface{})["in"]))
			}
		} else {
			ins = [][]byte{anyBytes(ev["in"])}
		}
		runDecSeq(nil, &j, ins, newStats())
		return append([]byte{}, j.b...), nil
	}
	replayers["san"] = func(ev map[string]interface{}) ([]byte, error) {
		var j jb
		pre := anyBytes(ev["pre"])
		slack := 2
		if f, ok := ev["slack"].(float64); ok {
			slack = int(f)
		}
		runSan(nil, &j, anyBytes(ev["in"]), pre, slack, newStats())
		return append([]byte{}, j.b...), nil
	}
}
