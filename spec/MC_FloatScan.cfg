SPECIFICATION Spec
CONSTANTS
  IntLens = {1, 2, 15, 16, 17, 19, 20}
  ZeroRuns = {0, 1, 18, 19, 20}
  FracLens = {0, 1, 3, 16, 19, 20}
  EmitStates = TRUE
VIEW View
INVARIANTS WellFormedAndFaithful ScanIsFold TiersNonEmpty ExactMeansSmall Emit
CHECK_DEADLOCK FALSE
