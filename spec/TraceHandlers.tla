--------------------------- MODULE TraceHandlers ---------------------------
(* Validation of recorded traversals (HandleArrayValues, HandleObjectValues) *)
(* with scripted, recording handlers.  C07, C09, C10.                        *)
(*                                                                           *)
(* event: kind 65|79, in, calls <<off, kf, kt, cls, pp, err, mode>>*, res <<ok, p, errid, panic>> *)
(*   cls  0: pp is the handler's answer; 1: answer >= 2^31 (far beyond any    *)
(*        input); -1: answer <= -2^31                                         *)
(*   err  0: the handler returned no error; k > 0: it returned its sentinel k *)
(*   mode 0: answered 0; 1: answered the exact end (found with encoding/json);*)
(*        2: scripted hostile answer                                          *)
(*   errid 0 nil; k the identical sentinel k; -1 a library error; -2 wrapped  *)
EXTENDS HandlersImpl, TraceCore

VARIABLE l

WellBehaved(calls) == \A i \in 1..Len(calls) : calls[i][7] \in {0, 1}
NoHandlerErr(calls) == \A i \in 1..Len(calls) : calls[i][6] = 0

Clauses(e) ==
  LET d == Input(e)
      kind == IF e.kind = 65 THEN "A" ELSE "O"
      calls == e.calls
      res == e.res
      n == Len(d)
      nc == Len(calls)
      \* long documents (the depth family) use the machine-based formulation of the same table
      mt == IF n > 3000 THEN MemberTableM(d, kind) ELSE MemberTable(d, kind)
      \* ---- C09: an error stops the traversal and is returned unchanged
      c09 == /\ \A i \in 1..nc : calls[i][6] # 0 => i = nc
             /\ (nc > 0 /\ calls[nc][6] # 0) => (res[1] = 0 /\ res[3] = calls[nc][6])
      \* ---- C07: well-behaved handlers
      applies == WellBehaved(calls) /\ NoHandlerErr(calls)
      c07 == applies =>
               IF mt.ok
                 THEN /\ res[1] = 1 /\ res[2] = mt.end
                      /\ nc = Len(mt.ms)
                      /\ \A i \in 1..nc : /\ calls[i][1] = mt.ms[i][1]
                                          /\ (kind = "O" => calls[i][2] = mt.ms[i][2] /\ calls[i][3] = mt.ms[i][3])
                 ELSE res[1] = 0
      \* the harness's "exact" answers must be what the specification calls exact
      infra == (applies /\ mt.ok /\ nc = Len(mt.ms)) =>
                  \A i \in 1..nc : calls[i][7] = 1 => (calls[i][4] = 0 /\ calls[i][5] = mt.ms[i][4] - mt.ms[i][1])
      \* ---- C10: totality, offsets in range, unusable answers are errors
      uses(i) == calls[i][1] < n /\ d[calls[i][1] + 1] \in {34, 91, 123}
      outOfRange(i) == calls[i][4] # 0 \/ calls[i][5] < 0 \/ calls[i][1] + calls[i][5] > n
      c10a == res[4] = 0
      c10b == res[1] = 1 => (res[2] >= 0 /\ res[2] <= n)
      c10c == \A i \in 1..nc : (calls[i][6] = 0 /\ uses(i) /\ outOfRange(i)) => res[1] = 0
      \* conformance of the implementation-shaped model (HandlersImpl) with the real traversal for *every*
      \* recorded answer sequence, hostile ones included (CONFORMANCE=1; notes, never violations)
      conf == IF "CONFORMANCE" \in DOMAIN IOEnv /\ IOEnv.CONFORMANCE = "1" /\ n <= 400
              THEN LET m == ImplRunRec(d, kind, [i \in 1..nc |-> <<calls[i][4], calls[i][5], calls[i][6]>>])
                   IN /\ (res[1] = 1) = m.ok
                      /\ m.ok => res[2] = m.end
                      /\ [i \in 1..nc |-> calls[i][1]] = m.calls
              ELSE TRUE
  IN F(conf, "NOTE", "traversal_differs_from_HandlersImpl_model")
     \cup F(c09, "C09", "handler_error_not_returned_unchanged_or_traversal_continued")
     \cup F(c07, "C07", "members_or_result")
     \cup F(infra, "INFRA", "harness_exact_answer_differs_from_spec")
     \cup F(c10a, "C10", "panic") \cup F(c10b, "C10", "offset_out_of_range")
     \cup F(c10c, "C10", "unusable_handler_offset_accepted")
     \cup F(e.unch = 1, "C16", "input_modified")

TraceInit == l = 1
TraceNext == /\ l <= Len(Trace)
             /\ Report(l, 0, IF IsPanic(Trace[l]) THEN PanicFail ELSE Clauses(Trace[l]))
             /\ l' = l + 1
TraceSpec == TraceInit /\ [][TraceNext]_l
Finished == l = Len(Trace) + 1 => PrintT(<<"TRACE-CONSUMED", Len(Trace)>>)
=============================================================================
