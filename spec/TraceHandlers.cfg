SPECIFICATION TraceSpec
CONSTANTS
  GMaxDepth = 1000000
INVARIANT Finished
CHECK_DEADLOCK FALSE
