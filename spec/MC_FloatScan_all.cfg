SPECIFICATION Spec
CONSTANTS
  IntLens = {1, 16, 19, 20}
  ZeroRuns = {0, 1, 19}
  FracLens = {0, 1, 16, 20}
  EmitStates = FALSE
INVARIANTS WellFormedAndFaithful ScanIsFold TiersNonEmpty ExactMeansSmall
CHECK_DEADLOCK FALSE
