----------------------------- MODULE MC_ZeroAlloc -----------------------------
(* R1 for C19: the precondition "a Buffer that has already been used on a     *)
(* document at least as deeply nested" is about the return-state stack: a call *)
(* allocates only when it must grow the stack beyond what an earlier call left *)
(* in the Buffer.  In the StackBuf model: after a first top-level call that    *)
(* reached depth d, a second call that stays within depth d performs no        *)
(* re-allocation and no in-place growth beyond the stored length.              *)
EXTENDS StackBuf
VARIABLES reached, allocsInSecond, deepest2
zvars == <<vars, reached, allocsInSecond, deepest2>>
ZInit == Init /\ reached = 0 /\ allocsInSecond = 0 /\ deepest2 = 0
ZNext ==
  \/ Enter /\ UNCHANGED <<reached, allocsInSecond, deepest2>>
  \/ /\ Push
     /\ reached' = IF calls = 1 /\ Len(acts) = 1 /\ Last(acts).top + 1 > reached THEN Last(acts).top + 1 ELSE reached
     /\ allocsInSecond' = IF calls = 2 /\ Len(arrays') > Len(arrays) THEN allocsInSecond + 1 ELSE allocsInSecond
     /\ deepest2' = IF calls = 2 /\ Last(acts).top + 1 > deepest2 THEN Last(acts).top + 1 ELSE deepest2
  \/ Pop /\ UNCHANGED <<reached, allocsInSecond, deepest2>>
  \/ Leave /\ UNCHANGED <<reached, allocsInSecond, deepest2>>
ZSpec == ZInit /\ [][ZNext]_zvars
\* a second call that does not go deeper than the first never allocates a new array
WarmMeansNoAlloc ==
  (calls = 2 /\ deepest2 <= reached) => allocsInSecond = 0
=============================================================================
