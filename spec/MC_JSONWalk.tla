----------------------------- MODULE MC_JSONWalk -----------------------------
(* R2: random behaviours of the grammar machine for `tlc -simulate'.  Only   *)
(* viable moves are taken; a walk is closed with the canonical completion    *)
(* and printed.                                                              *)
EXTENDS JSONMachine, TLC, Json
CONSTANTS MinLen, MaxLen

Viable(b) == LET c == Step(cfg, b) IN
             /\ c.out = "run" \/ (c.out = "done" /\ Len(inp) >= MinLen)
             /\ inp = <<>> => b \in {91, 123}
WalkFeed == /\ cfg.out = "run" /\ Len(inp) < MaxLen
            /\ \E b \in Reps : Viable(b) /\ Feed(b)
Finish == /\ cfg.out \in {"run", "done"}
          /\ Len(inp) >= MinLen \/ cfg.out = "done"
          /\ PrintT(ToJson(<<"WALK", inp \o (IF cfg.out = "run" THEN Completion(cfg) ELSE <<>>)>>))
          /\ cfg' = [cfg EXCEPT !.out = "fin"]
          /\ UNCHANGED inp
WalkNext == WalkFeed \/ Finish
WalkSpec == Init /\ [][WalkNext]_vars
=============================================================================
