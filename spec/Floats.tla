------------------------------- MODULE Floats -------------------------------
(* Correct rounding of a JSON number literal to a binary floating-point       *)
(* format (C04), stated as a relation between the literal and a bit pattern   *)
(* and evaluated in exact arithmetic.  TLC integers are 32-bit, so unbounded  *)
(* naturals are little-endian sequences of base-10^4 limbs (products stay     *)
(* below 2^31); zero is <<>>; no most-significant zero limbs.                 *)
(*                                                                           *)
(* A format is [mb, eb, hi, lo, safe]: mantissa bits, exponent bits, and       *)
(* decimal magnitude screens (values with nd+E > hi overflow for sure, with   *)
(* nd+E < lo round to zero for sure, with nd+E <= safe are finite for sure)   *)
(* that save big arithmetic in the obvious cases.                             *)
EXTENDS Integers, Sequences, SequencesExt

B == 10000
Binary64 == [mb |-> 52, eb |-> 11, hi |-> 310, lo |-> -330, safe |-> 308]

Trim(a) == LET RECURSIVE T(_)
               T(k) == IF k = 0 THEN 0 ELSE IF a[k] # 0 THEN k ELSE T(k - 1)
           IN SubSeq(a, 1, T(Len(a)))
RECURSIVE Flush(_, _)
Flush(o, c) == IF c = 0 THEN o ELSE Flush(Append(o, c % B), c \div B)
MulSmall(a, m) == \* m < 2^17
  LET r == FoldLeft(LAMBDA acc, x : LET t == x * m + acc.c IN [o |-> Append(acc.o, t % B), c |-> t \div B],
                    [o |-> <<>>, c |-> 0], a)
  IN Flush(r.o, r.c)
AddSmall(a, m) == \* m < B
  LET r == FoldLeft(LAMBDA acc, x : LET t == x + acc.c IN [o |-> Append(acc.o, t % B), c |-> t \div B],
                    [o |-> <<>>, c |-> m], a)
  IN IF r.c = 0 THEN r.o ELSE Append(r.o, r.c)
RECURSIVE MulPow2(_, _)
MulPow2(a, j) == IF j = 0 THEN a ELSE IF j >= 13 THEN MulPow2(MulSmall(a, 8192), j - 13) ELSE MulSmall(a, 2^j)
MulPow10(a, e) == IF a = <<>> THEN a ELSE
   LET q == e \div 4  r == e % 4  z == [i \in 1..q |-> 0]
   IN z \o (IF r = 0 THEN a ELSE MulSmall(a, 10^r))
Cmp(a, b) == \* -1, 0, 1
  IF Len(a) # Len(b) THEN (IF Len(a) < Len(b) THEN -1 ELSE 1)
  ELSE LET RECURSIVE C(_)
           C(k) == IF k = 0 THEN 0 ELSE IF a[k] < b[k] THEN -1 ELSE IF a[k] > b[k] THEN 1 ELSE C(k - 1)
       IN C(Len(a))
AddBig(a, b) ==
  LET n == IF Len(a) > Len(b) THEN Len(a) ELSE Len(b)
      g(x, i) == IF i <= Len(x) THEN x[i] ELSE 0
      r == FoldLeft(LAMBDA acc, i : LET t == g(a, i) + g(b, i) + acc.c IN [o |-> Append(acc.o, t % B), c |-> t \div B],
                    [o |-> <<>>, c |-> 0], [i \in 1..n |-> i])
  IN IF r.c = 0 THEN r.o ELSE Append(r.o, r.c)
RECURSIVE SubOne(_)
SubOne(a) == IF a[1] > 0 THEN [a EXCEPT ![1] = a[1] - 1] ELSE Trim(<<B - 1>> \o SubOne(Tail(a)))
IsEven(a) == a = <<>> \/ a[1] % 2 = 0
One == <<1>>
Pow2(j) == MulPow2(One, j)

\* decimal digit values (most significant first) -> bignum
FromDigits(ds) ==
  LET n == Len(ds)
      nl == (n + 3) \div 4
      limb(i) == LET hi == n - 4 * (i - 1)  lo == IF hi - 3 < 1 THEN 1 ELSE hi - 3
                 IN FoldLeft(LAMBDA acc, k : acc * 10 + ds[k], 0, [k \in 1..(hi - lo + 1) |-> lo + k - 1])
  IN Trim([i \in 1..nl |-> limb(i)])
\* 16-bit words, most significant first -> bignum
AddWord(acc, w) == LET m == MulSmall(acc, 65536)
                       mhi == IF w >= B THEN (IF Len(m) = 0 THEN <<0, w \div B>> ELSE <<m[1]>> \o AddSmall(Tail(m), w \div B)) ELSE m
                   IN AddSmall(mhi, w % B)
From16(ws) == Trim(FoldLeft(AddWord, <<>>, ws))
\* small natural -> bignum
FromNat(n) == Flush(<<>>, n)

\* ---- literals -------------------------------------------------------------------
\* s: the bytes of a well-formed JSON number literal.  Result: sign, significant
\* decimal digits ds without leading/trailing zeros, decimal exponent E:
\* |value| = ds * 10^E.  Exponents beyond six digits saturate.
IsD(b) == b >= 48 /\ b <= 57
Lit(s) ==
  LET neg == s[1] = 45
      st == IF neg THEN 2 ELSE 1
      n == Len(s)
      RECURSIVE Run(_)
      Run(i) == IF i <= n /\ IsD(s[i]) THEN Run(i + 1) ELSE i
      ie == Run(st)
      hasF == ie <= n /\ s[ie] = 46
      fe == IF hasF THEN Run(ie + 1) ELSE ie
      hasE == fe <= n /\ s[fe] \in {69, 101}
      es == IF hasE /\ s[fe + 1] \in {43, 45} THEN fe + 2 ELSE fe + 1
      eneg == hasE /\ s[fe + 1] = 45
      ee == IF hasE THEN Run(es) ELSE fe
      edigs == IF hasE THEN SubSeq(s, es, ee - 1) ELSE <<>>
      RECURSIVE LZ(_, _)
      LZ(q, i) == IF i <= Len(q) /\ q[i] = 48 THEN LZ(q, i + 1) ELSE i
      esig == SubSeq(edigs, LZ(edigs, 1), Len(edigs))
      eval == IF Len(esig) > 6 THEN 1000000 ELSE FoldLeft(LAMBDA a, c : a * 10 + (c - 48), 0, esig)
      nint == ie - st
      nfrac == IF hasF THEN fe - ie - 1 ELSE 0
      digs0 == [k \in 1..(nint + nfrac) |-> IF k <= nint THEN s[st + k - 1] - 48 ELSE s[ie + (k - nint)] - 48]
      lz == LET RECURSIVE Z(_)
                Z(i) == IF i <= Len(digs0) /\ digs0[i] = 0 THEN Z(i + 1) ELSE i
            IN Z(1)
      RECURSIVE TZ(_)
      TZ(i) == IF i >= 1 /\ digs0[i] = 0 THEN TZ(i - 1) ELSE i
      last == TZ(Len(digs0))
      ds == IF lz > last THEN <<>> ELSE SubSeq(digs0, lz, last)
      E == (IF eneg THEN -eval ELSE eval) - nfrac + (Len(digs0) - last)
  IN [neg |-> neg, ds |-> ds, E |-> E, nint |-> nint]

\* compare D * 10^E with N * 2^J
CmpScaled(D, E, N, J) ==
  LET lhs == MulPow2(MulPow10(D, IF E > 0 THEN E ELSE 0), IF J < 0 THEN -J ELSE 0)
      rhs == MulPow2(MulPow10(N, IF E < 0 THEN -E ELSE 0), IF J > 0 THEN J ELSE 0)
  IN Cmp(lhs, rhs)

\* ---- the rounding relation ----------------------------------------------------------
\* The floating-point number with sign bit sgn, biased exponent field e and
\* fraction field frac (a bignum < 2^mb) is the correctly rounded value of lit:
\* its magnitude M * 2^K is nearest to ds * 10^E, ties to even.
Bias(fmt) == 2^(fmt.eb - 1) - 1
RoundedG(lit, fmt, sgn, e, frac) ==
  LET M == IF e > 0 THEN Trim(AddBig(Pow2(fmt.mb), frac)) ELSE frac
      K == (IF e > 0 THEN e ELSE 1) - Bias(fmt) - fmt.mb
      nd == Len(lit.ds)
      mag == nd + lit.E
      even == IsEven(M)
      pow2edge == frac = <<>> /\ e > 1          \* the gap below is half as wide
      M4 == MulSmall(M, 4)
      up == AddSmall(M4, 2)                       \* (2M+1)*2, scaled by 2^(K-2)
      low == IF M = <<>> THEN <<>> ELSE IF pow2edge THEN SubOne(M4) ELSE SubOne(SubOne(M4))
      D == FromDigits(lit.ds)
  IN /\ (sgn = 1) = lit.neg
     /\ e # 2^fmt.eb - 1
     /\ IF nd = 0 THEN M = <<>> /\ e = 0
        ELSE IF mag > fmt.hi THEN FALSE
        ELSE IF mag < fmt.lo THEN M = <<>> /\ e = 0
        ELSE LET cu == CmpScaled(D, lit.E, up, K - 2)
                 cl == IF M = <<>> THEN 1 ELSE CmpScaled(D, lit.E, low, K - 2)
             IN /\ (cu < 0 \/ (cu = 0 /\ even))
                /\ (cl > 0 \/ (cl = 0 /\ (even \/ pow2edge)))

\* the rounded magnitude exceeds the largest finite number
OverflowG(lit, fmt) ==
  LET nd == Len(lit.ds)  mag == nd + lit.E
      top == SubOne(Pow2(fmt.mb + 2))                                   \* 2^(mb+2) - 1
      kmax == (2^fmt.eb - 2) - Bias(fmt) - fmt.mb
  IN nd > 0 /\ (mag > fmt.hi \/ (mag > fmt.safe /\ CmpScaled(FromDigits(lit.ds), lit.E, top, kmax - 1) >= 0))

\* binary64 from four 16-bit words <<w3, w2, w1, w0>>
Rounded(lit, w) ==
  LET sgn == w[1] \div 32768
      e == (w[1] % 32768) \div 16
      frac == From16(<<w[1] % 16, w[2], w[3], w[4]>>)
  IN RoundedG(lit, Binary64, sgn, e, frac)
Overflow(lit) == OverflowG(lit, Binary64)
=============================================================================
