SPECIFICATION Spec
CONSTANTS
  PA = "new"
  PB = "old"
  PC = "new"
  Sizes = {0, 1, 3, 8}
  MaxSteps = 7
  K = 2
INVARIANT Linear
CHECK_DEADLOCK FALSE
