------------------------------ MODULE Strings ------------------------------
(* JSON string content (the bytes between the quotes): well-formedness,      *)
(* decoding (escapes resolved, UTF-16 pairs combined, unpaired surrogates    *)
(* replaced by U+FFFD, every other byte verbatim), and the UTF-8 replacement *)
(* rule of encoding/json that the StdLibCompatible helpers implement.        *)
EXTENDS Bytes, SequencesExt, Folds

FFFD == <<239, 191, 189>>

\* UTF-8 encoding of a code point (0..10FFFF, not a surrogate)
Utf8Enc(cp) ==
  IF cp < 128 THEN <<cp>>
  ELSE IF cp < 2048 THEN <<192 + (cp \div 64), 128 + (cp % 64)>>
  ELSE IF cp < 65536 THEN <<224 + (cp \div 4096), 128 + ((cp \div 64) % 64), 128 + (cp % 64)>>
  ELSE <<240 + (cp \div 262144), 128 + ((cp \div 4096) % 64), 128 + ((cp \div 64) % 64), 128 + (cp % 64)>>

IsHighSur(u) == u >= 55296 /\ u <= 56319      \* D800..DBFF
IsLowSur(u)  == u >= 56320 /\ u <= 57343      \* DC00..DFFF
IsSur(u)     == u >= 55296 /\ u <= 57343

\* value of the four hex digits at s[i..i+3]; -1 when they are not all there
U4(s, i) == IF i + 3 <= Len(s) /\ IsHex(s[i]) /\ IsHex(s[i+1]) /\ IsHex(s[i+2]) /\ IsHex(s[i+3])
            THEN HexVal(s[i]) * 4096 + HexVal(s[i+1]) * 256 + HexVal(s[i+2]) * 16 + HexVal(s[i+3])
            ELSE -1
\* value of a \uXXXX escape starting at s[i]; -1 when there is none
UEsc(s, i) == IF i + 5 <= Len(s) /\ s[i] = 92 /\ s[i+1] = 117 THEN U4(s, i + 2) ELSE -1

EscVal(b) == CASE b = 34 -> 34 [] b = 92 -> 92 [] b = 47 -> 47 [] b = 98 -> 8
               [] b = 102 -> 12 [] b = 110 -> 10 [] b = 114 -> 13 [] b = 116 -> 9

\* Is s (content only, no quotes) well-formed JSON string content?
WellFormedContent(s) ==
  LET n == Len(s)
      \* a small automaton folded over the bytes: 0 plain, 1 after backslash, 2..5 hex digits owed
      step(m, b) == CASE m = -1 -> -1
                      [] m = 0 -> IF b = 92 THEN 1 ELSE IF b = 34 \/ IsCtl(b) THEN -1 ELSE 0
                      [] m = 1 -> IF IsSimpleEsc(b) THEN 0 ELSE IF b = 117 THEN 2 ELSE -1
                      [] OTHER -> IF IsHex(b) THEN (IF m = 5 THEN 0 ELSE m + 1) ELSE -1
  IN FoldLeft(step, 0, s) = 0

\* Decoded content of well-formed string content.
RECURSIVE DecFrom(_, _, _)
DecFrom(s, i, acc) ==
  IF i > Len(s) THEN acc
  ELSE IF s[i] # 92 THEN
    \* copy the whole run of plain bytes at once
    LET j == SelectInSubSeq(s, i, Len(s), LAMBDA b : b = 92)
        e == IF j = 0 THEN Len(s) + 1 ELSE j
    IN DecFrom(s, e, acc \o SubSeq(s, i, e - 1))
  ELSE IF s[i+1] # 117 THEN DecFrom(s, i + 2, Append(acc, EscVal(s[i+1])))
  ELSE LET u == U4(s, i + 2)  v == UEsc(s, i + 6) IN
       IF IsHighSur(u) /\ v >= 0 /\ IsLowSur(v)
         THEN DecFrom(s, i + 12, acc \o Utf8Enc(65536 + (u - 55296) * 1024 + (v - 56320)))
       ELSE IF IsSur(u) THEN DecFrom(s, i + 6, acc \o FFFD)
       ELSE DecFrom(s, i + 6, acc \o Utf8Enc(u))
DecodeContent(s) == DecFrom(s, 1, <<>>)

\* ---- encoding/json's replacement of invalid UTF-8 ---------------------------
\* Length of the well-formed UTF-8 sequence starting at s[i], or 0 if there is
\* none (Unicode table 3-7: no overlongs, no surrogates, nothing above 10FFFF).
Cont(s, i) == i <= Len(s) /\ s[i] >= 128 /\ s[i] <= 191
Utf8Len(s, i) ==
  LET b == s[i] IN
  IF b < 128 THEN 1
  ELSE IF b >= 194 /\ b <= 223 THEN (IF Cont(s, i+1) THEN 2 ELSE 0)
  ELSE IF b >= 224 /\ b <= 239 THEN
     (IF i + 1 <= Len(s)
         /\ s[i+1] >= (IF b = 224 THEN 160 ELSE 128)
         /\ s[i+1] <= (IF b = 237 THEN 159 ELSE 191)
         /\ Cont(s, i+2) THEN 3 ELSE 0)
  ELSE IF b >= 240 /\ b <= 244 THEN
     (IF i + 1 <= Len(s)
         /\ s[i+1] >= (IF b = 240 THEN 144 ELSE 128)
         /\ s[i+1] <= (IF b = 244 THEN 143 ELSE 191)
         /\ Cont(s, i+2) /\ Cont(s, i+3) THEN 4 ELSE 0)
  ELSE 0

RECURSIVE SanFrom(_, _, _)
SanFrom(s, i, acc) ==
  IF i > Len(s) THEN acc
  ELSE LET w == Utf8Len(s, i) IN
       IF w = 0 THEN SanFrom(s, i + 1, acc \o FFFD)
       ELSE SanFrom(s, i + w, acc \o SubSeq(s, i, i + w - 1))
Utf8Sanitize(s) == SanFrom(s, 1, <<>>)

RECURSIVE ValidFrom(_, _)
ValidFrom(s, i) == IF i > Len(s) THEN TRUE
                   ELSE LET w == Utf8Len(s, i) IN w > 0 /\ ValidFrom(s, i + w)
IsValidUtf8(s) == ValidFrom(s, 1)
=============================================================================
