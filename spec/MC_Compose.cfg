SPECIFICATION Spec
CONSTANTS
  N = 5
  GMaxDepth = 3
INVARIANTS Compositional NullTable
CHECK_DEADLOCK FALSE
