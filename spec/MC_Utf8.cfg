SPECIFICATION Spec
CONSTANT N = 3
INVARIANTS Idempotent IdentityOnValid OutputValid LengthLaw
CHECK_DEADLOCK FALSE
