SPECIFICATION Spec
CONSTANTS
  N = 4
  Fast = 3
INVARIANTS WordRefinesSpec
CHECK_DEADLOCK FALSE
