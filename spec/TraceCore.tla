----------------------------- MODULE TraceCore -----------------------------
(* Shared glue of the trace specifications: the recorded events, run-length  *)
(* expansion of long inputs, and the failure register.  A trace step never   *)
(* blocks on a bad event: it prints a BAD line and goes on, so that one run  *)
(* reports every failing event, and /verif/bin/check turns BAD lines into    *)
(* VIOLATION / KNOWN-FINDING lines after reproducing them on the real code.  *)
EXTENDS Integers, Sequences, SequencesExt, TLC, Json, IOUtils

Trace == ndJsonDeserialize(IOEnv.TRACE)

\* [[unit, count], ...]  ->  the byte sequence
RECURSIVE Rep(_, _, _)
Rep(unit, n, acc) == IF n = 0 THEN acc ELSE Rep(unit, n - 1, acc \o unit)
\* doubling keeps the expansion O(n log n) in copying for long runs
RECURSIVE RepFast(_, _)
RepFast(unit, n) == IF n = 0 THEN <<>>
                    ELSE IF n = 1 THEN unit
                    ELSE LET h == RepFast(unit, n \div 2) IN
                         IF n % 2 = 0 THEN h \o h ELSE h \o h \o unit
Expand(segs) == FoldLeft(LAMBDA acc, sg : acc \o RepFast(sg[1], sg[2]), <<>>, segs)

Input(e) == IF "segs" \in DOMAIN e THEN Expand(e.segs) ELSE e["in"]

\* F(cond, prop, clause): the empty set when the clause holds, else one failure
F(cond, prop, clause) == IF cond THEN {} ELSE {<<prop, clause>>}

\* an observer that caught a panic records only that; it is a totality failure whatever was being checked
IsPanic(e) == e.op = "panic"
PanicFail == {<<"C10", "panic">>}

Report(l, row, fails) == \A f \in fails : PrintT(ToJson(<<"BAD", l, row, f[1], f[2]>>))
=============================================================================
