SPECIFICATION Spec
CONSTANTS
  MaxPush = 3
  MaxNest = 2
  MaxCalls = 3
  MaxArrays = 4
  MaxActs = 5
  Variant = "code"
INVARIANTS NoStaleRead IndexInRange BufferWellFormed
CHECK_DEADLOCK FALSE
