SPECIFICATION TraceSpec
INVARIANT Finished
CHECK_DEADLOCK FALSE
