SPECIFICATION Spec
CONSTANTS
  MaxPush = 2
  MaxNest = 2
  MaxCalls = 2
  MaxArrays = 3
  MaxActs = 4
  Variant = "code"
INVARIANTS NoStaleRead IndexInRange BufferWellFormed
CHECK_DEADLOCK FALSE
