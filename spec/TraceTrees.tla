------------------------------ MODULE TraceTrees ------------------------------
(* Validation of recorded generic decoding: ReadValue, ReadObject, ReadArray   *)
(* (C03), encoding/json as a second implementation, and the StdLibCompatible   *)
(* slice/map helpers on the decoded values (C17).                              *)
(* calls: [fn, ok, p, tree]   fn 1 ReadValue, 2 ValueReader.ReadValue (reused   *)
(* reader), 3 ReadObject, 4 ReadArray, 5/6 the same on a reused reader,         *)
(* 7/8 HandleArrayValues / HandleObjectValues with a zero ValueReader as handler *)
(* A recorded tree <<"big">> stands for a tree too deep to log.                 *)
EXTENDS Trees, TraceCore
VARIABLE l
\* documents of the depth family (run-length "segs" inputs, thousands of levels deep) are judged by the
\* pushdown machine, which is iterative; MC_JSONMachine shows the two formulations agree on (ok, end)
M == INSTANCE JSONMachine WITH MaxDepth <- GMaxDepth, cfg <- 0, inp <- 0

FirstByte(s) == At(s, SkipWS(s, 1))

Clauses(e) ==
  LET s == Input(e)
      deep == "segs" \in DOMAIN e
      v == IF deep THEN LET m == M!Skip(s) IN [ok |-> m.ok, end |-> m.end, tree |-> <<"deep">>] ELSE Value(s)
      ovf == ~deep /\ v.ok /\ HasOverflow(v.tree)
      fb == FirstByte(s)
      okFor(fn) == v.ok /\ ~ovf /\ (fn \in {3, 5} => fb = 123) /\ (fn \in {4, 6} => fb = 91)
                   \* the traversal functions themselves take the literal null for an empty container (Handlers.tla)
                   /\ (fn = 8 => fb \in {123, 110}) /\ (fn = 7 => fb \in {91, 110})
      \* 7/8: a zero ValueReader handed directly to HandleArrayValues / HandleObjectValues (beyond the listed
      \* properties: notes).  Only success and offset are observable; the reader's own depth accounting starts one
      \* level later than through ReadArray / ReadObject, so documents of the depth family are not judged here.
      Direct(c) == LET ok == okFor(c.fn) IN
             F(ok => c.ok = 1 /\ c.p = v.end, "NOTE", "ext_valuereader_as_handler_rejects_or_wrong_offset_" \o ToString(c.fn))
             \cup F(~ok /\ ~deep => c.ok = 0, "NOTE", "ext_valuereader_as_handler_accepts_" \o ToString(c.fn))
  IN UNION { LET c == e.calls[i]  ok == okFor(c.fn) IN
             IF c.fn \in {7, 8} THEN Direct(c) ELSE
             F(c.ok = (IF ok THEN 1 ELSE 0), "C03", "success_" \o ToString(c.fn))
             \cup F(ok /\ c.ok = 1 => c.p = v.end, "C03", "offset_" \o ToString(c.fn))
             \cup F(ok /\ c.ok = 1 /\ c.tree # <<"big">> => TreeMatch(v.tree, c.tree, FALSE), "C03", "tree_" \o ToString(c.fn))
             \cup F(c.tree = <<"big">> /\ ~deep => (v.ok => TreeDepth(v.tree) > 100), "INFRA", "tree_elided_but_shallow")
             \cup F(deep /\ c.ok = 1 => c.tree = <<"big">>, "INFRA", "deep_family_tree_logged")
             : i \in 1..Len(e.calls) }
     \* encoding/json: same verdict, same tree after the UTF-8 replacement rule
     \cup F(e.std.seen = 1 => (e.std.ok = (IF v.ok /\ ~ovf /\ AllWSAfter(s, v.end) THEN 1 ELSE 0)), "C03", "encoding_json_verdict_differs_from_spec")
     \cup F(e.std.seen = 1 /\ e.std.ok = 1 /\ v.ok /\ e.std.tree # <<"big">> /\ ~deep => TreeMatch(v.tree, e.std.tree, TRUE),
            "C03", "encoding_json_tree_differs_from_spec")
     \* StdLibCompatibleSlice / StdLibCompatibleMap on the decoded value
     \cup F(e.compat.seen = 1 => SanEq(e.compat.arg, e.compat.out), "C17", "StdLibCompatible_slice_or_map")
     \cup F(e.compat.seen = 1 => e.compat.argafter = e.compat.arg, "C17", "StdLibCompatible_helper_modified_its_argument")
     \cup F(e.compat.seen = 1 /\ e.std.seen = 1 /\ e.std.ok = 1 /\ v.ok /\ ~deep => TreeMatch(v.tree, e.compat.out, TRUE),
            "C17", "compat_value_differs_from_encoding_json_rule")
     \* trees too deep to log (single-keyed objects only): every key and string of the helper's result is the
     \* replacement of the corresponding one of its argument
     \cup F(e.deepcompat.seen = 1 => /\ Len(e.deepcompat.out) = Len(e.deepcompat.arg)
                                     /\ \A i \in 1..Len(e.deepcompat.arg) : e.deepcompat.out[i] = Utf8Sanitize(e.deepcompat.arg[i]),
            "C17", "StdLibCompatible_slice_or_map_on_a_deep_value")
     \cup F(e.unch = 1, "C16", "input_modified") \cup F(e.panics = 0, "C10", "panic")

TraceInit == l = 1
TraceNext == /\ l <= Len(Trace)
             /\ Report(l, 0, IF IsPanic(Trace[l]) THEN PanicFail ELSE Clauses(Trace[l]))
             /\ l' = l + 1
TraceSpec == TraceInit /\ [][TraceNext]_l
Finished == l = Len(Trace) + 1 => PrintT(<<"TRACE-CONSUMED", Len(Trace)>>)
=============================================================================
