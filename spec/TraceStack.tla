------------------------------ MODULE TraceStack ------------------------------
(* Trace validation of the stack discipline (C14) on real executions: the     *)
(* internal events recorded through the guarded hook verifStack (enter, push,  *)
(* pop, handler call/return, leave; with top, len, cap, array identity and the *)
(* cell value) must be a behaviour of StackBuf.tla.  Every trace action is     *)
(*     IsEvent(kind) /\ <logged fields bound to the model> /\ <StackBuf action>*)
(* so the real code is checked against the very model whose invariants         *)
(* (NoStaleRead, IndexInRange) were model-checked; on top of the model's own    *)
(* tags the *real* cell values are followed: a pop must return the value this   *)
(* activation pushed at that level.  A history that cannot be matched is        *)
(* reported and skipped up to the next reset event.  StackBuf is an             *)
(* implementation-shaped model (a refactoring may use another discipline and    *)
(* still satisfy C14), so a mismatch is a CONFORMANCE-NOTE, not a violation:    *)
(* C14's verdicts come from TraceHist (outcome with the shared Buffer = outcome *)
(* without one).                                                                *)
EXTENDS StackBuf, Json, IOUtils
Trace == ndJsonDeserialize(IOEnv.TRACE)
VARIABLES l,        \* position in Trace
          ptrOf,    \* real array identity of every model array
          vals,     \* per activation: the real cell values it has pushed and not yet popped
          skipping  \* a mismatch was reported; events are skipped up to the next reset
tvars == <<vars, l, ptrOf, vals, skipping>>

E == Trace[l]
HdrOK(a) == /\ a.len = E.len /\ CapOf(a) = E.cap
            /\ IF a.arr = 0 THEN E.ptr = 0 ELSE ptrOf[a.arr] = E.ptr

TInit == Init /\ l = 1 /\ ptrOf = <<>> /\ vals = <<>> /\ skipping = FALSE

TReset == /\ E.ev = 9
          /\ arrays' = <<>> /\ buf' = [arr |-> 0, len |-> 0] /\ acts' = <<>> /\ nextTag' = 1 /\ stale' = FALSE /\ calls' = 0
          /\ ptrOf' = <<>> /\ vals' = <<>> /\ skipping' = FALSE
\* a wrapper hands the Buffer's slice to a machine: a top-level call, or a handler re-entering the library
TEnter == /\ E.ev = 0
          /\ IF acts = <<>> THEN Enter ELSE InvokeHandler
          /\ LET a == Last(acts') IN a.len = E.len /\ (IF a.arr = 0 THEN E.ptr = 0 /\ E.cap = 0 ELSE ptrOf[a.arr] = E.ptr /\ arrays[a.arr].cap = E.cap)
          /\ vals' = Append(vals, <<>>) /\ UNCHANGED <<ptrOf, skipping>>
TPush == /\ E.ev = 1
         /\ PushWith(E.cap)
         /\ LET a == Last(acts') IN
            /\ a.top = E.top /\ a.len = E.len /\ arrays'[a.arr].cap = E.cap
            /\ IF Len(arrays') > Len(arrays) THEN ptrOf' = Append(ptrOf, E.ptr)
               ELSE ptrOf[a.arr] = E.ptr /\ UNCHANGED ptrOf
         /\ vals' = [vals EXCEPT ![Len(vals)] = Append(@, E.val)] /\ UNCHANGED skipping
TPop == /\ E.ev = 2
        /\ Pop
        /\ Last(acts').top = E.top
        /\ vals[Len(vals)] # <<>> /\ E.val = Last(vals[Len(vals)])         \* the real cell holds what this activation pushed
        /\ vals' = [vals EXCEPT ![Len(vals)] = Front(@)] /\ UNCHANGED <<ptrOf, skipping>>
\* the handler is called with no live return state (so a re-entrant call cannot clobber one)
TInvoke == /\ E.ev = 3 /\ acts # <<>> /\ E.top = Last(acts).top /\ E.top = 0
           /\ UNCHANGED <<vars, ptrOf, vals, skipping>>
TReturn == /\ E.ev = 4 /\ acts # <<>> /\ E.top = Last(acts).top
           /\ UNCHANGED <<vars, ptrOf, vals, skipping>>
TLeave == /\ E.ev = 5 /\ acts # <<>> /\ HdrOK(Last(acts))
          /\ Leave
          /\ vals' = Front(vals) /\ UNCHANGED <<ptrOf, skipping>>

Matched == TEnter \/ TPush \/ TPop \/ TInvoke \/ TReturn \/ TLeave
TraceNext ==
  /\ l <= Len(Trace)
  /\ l' = l + 1
  /\ \/ TReset
     \/ skipping /\ E.ev # 9 /\ UNCHANGED <<vars, ptrOf, vals, skipping>>
     \/ ~skipping /\ E.ev # 9 /\ Matched
     \/ /\ ~skipping /\ E.ev # 9 /\ ~ENABLED Matched
        /\ PrintT(ToJson(<<"BAD", l, 0, "NOTE", "stack_discipline_event_" \o ToString(E.ev) \o "_not_a_step_of_StackBuf">>))
        /\ skipping' = TRUE /\ UNCHANGED <<vars, ptrOf, vals>>
TraceSpec == TInit /\ [][TraceNext]_tvars
Finished == l = Len(Trace) + 1 => PrintT(<<"TRACE-CONSUMED", Len(Trace)>>)
\* the model's own invariants, now on the real execution
RealNoStaleRead == ~stale
RealIndexInRange == IndexInRange
=============================================================================
