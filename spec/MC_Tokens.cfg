SPECIFICATION Spec
INVARIANTS TableAgreesWithMachine LiteralsAgree
CHECK_DEADLOCK FALSE
