--------------------------- MODULE MC_HandlersImpl ---------------------------
(* R1 for C07: the implementation-shaped traversal refines the intended one   *)
(* for every document over the structural alphabet that starts a container    *)
(* (or null) and every well-behaved strategy for the first three calls.       *)
EXTENDS HandlersImpl, TLC
CONSTANT N
VARIABLE inp
HAlpha == {32, 34, 92, 45, 46, 48, 49, 44, 58, 91, 93, 123, 125, 101, 116, 110}
Init == inp \in {<<91>>, <<123>>, <<32, 91>>, <<110>>}
Next == Len(inp) < N /\ \E b \in HAlpha : inp' = Append(inp, b)
Spec == Init /\ [][Next]_inp

Strats == {<<>>} \cup {<<a>> : a \in {"exact"}} \cup {<<a, b>> : a, b \in {"zero", "exact"}}
            \cup {<<a, b, c>> : a, b, c \in {"zero", "exact"}}
Refines(kind) ==
  LET mt == MemberTable(inp, kind) IN
  \A st \in Strats :
     LET r == ImplRun(inp, kind, st) IN
     /\ r.ok = (mt.ok /\ ~r.herr)
     /\ r.herr => ~mt.ok                  \* a well-behaved handler fails only on a malformed member
     /\ r.ok => /\ r.end = mt.end
                /\ r.calls = [i \in 1..Len(mt.ms) |-> mt.ms[i][1]]
ResyncRefinesIntended == Refines("A") /\ Refines("O")
\* the machine-based formulation of the member table equals the grammar-based one (also at the depth limit:
\* MC_HandlersImpl_depth.cfg runs this with GMaxDepth = 2)
TablesAgree == \A kind \in {"A", "O"} : MemberTableM(inp, kind) = MemberTable(inp, kind)
=============================================================================
