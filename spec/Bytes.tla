------------------------------- MODULE Bytes -------------------------------
(* The byte alphabet of the specification.  Everything in the specification  *)
(* that reads input reads values in 0..255.  ClassOf partitions the 256 byte *)
(* values into classes that no operator of the specification distinguishes   *)
(* (checked: invariant ClassSound of MC_JSONMachine); exhaustive exploration  *)
(* runs over one representative per class, replay into the real code expands  *)
(* every class back to all of its members.                                    *)
EXTENDS Integers, Sequences

Byte == 0..255

IsWS(b)    == b = 32 \/ b = 9 \/ b = 10 \/ b = 13
IsCtl(b)   == b < 32
IsDigit(b) == b >= 48 /\ b <= 57
IsDig19(b) == b >= 49 /\ b <= 57
IsHex(b)   == IsDigit(b) \/ (b >= 97 /\ b <= 102) \/ (b >= 65 /\ b <= 70)
HexVal(b)  == IF IsDigit(b) THEN b - 48 ELSE IF b >= 97 THEN b - 87 ELSE b - 55
IsSimpleEsc(b) == b \in {34, 92, 47, 98, 102, 110, 114, 116}   \* " \ / b f n r t

\* One representative per class.  Letters that have a grammar role of their
\* own are singleton classes.
ClassOf(b) ==
  CASE b = 32 -> 32                       \* space
    [] b \in {9, 10, 13} -> 9             \* ws that is a control byte inside strings
    [] b < 32 -> 0                        \* other control bytes
    [] b = 34 -> 34  [] b = 92 -> 92  [] b = 47 -> 47
    [] b = 45 -> 45  [] b = 43 -> 43  [] b = 46 -> 46
    [] b = 48 -> 48
    [] b >= 49 /\ b <= 57 -> 49
    [] b = 44 -> 44  [] b = 58 -> 58
    [] b = 91 -> 91  [] b = 93 -> 93  [] b = 123 -> 123 [] b = 125 -> 125
    [] b = 101 -> 101 [] b = 69 -> 69                  \* e E
    [] b = 97 -> 97  [] b = 98 -> 98                    \* a b
    [] b \in {99, 100} -> 99                            \* c d   (hex only)
    [] b = 102 -> 102 [] b = 108 -> 108 [] b = 110 -> 110
    [] b = 114 -> 114 [] b = 115 -> 115 [] b = 116 -> 116 [] b = 117 -> 117
    [] b \in {65, 66, 67, 68, 70} -> 65                 \* A-D F (hex only)
    [] b >= 128 -> 128
    [] OTHER -> 33                                      \* any other ASCII incl. 7F

Reps == {ClassOf(b) : b \in Byte}

\* A structural sub-alphabet for the longer exhaustive runs.
StructReps == {32, 34, 92, 45, 46, 48, 49, 44, 58, 91, 93, 123, 125, 101, 116, 33}

=============================================================================
