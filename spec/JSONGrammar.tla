---------------------------- MODULE JSONGrammar ----------------------------
(* The same language as JSONMachine, written as a recursive-descent          *)
(* definition over positions, and returning the value tree.  Two independent *)
(* formulations of one language are the defence against a wrong oracle:      *)
(* MC_JSONMachine checks that they agree on (ok, end) for every explored     *)
(* input.                                                                    *)
(*                                                                           *)
(* Positions are 1-based indexes into the byte sequence s; `end' results are *)
(* 0-based exclusive offsets (= number of bytes consumed), as the API reports*)
(* them.  Trees:                                                             *)
(*   <<"null">>  <<"true">>  <<"false">>                                     *)
(*   <<"num", literal bytes>>      <<"str", decoded bytes>>                  *)
(*   <<"arr", <<items>> >>         <<"obj", << <<key bytes, value>>, ... >> >>*)
(* Object members are kept in document order with duplicates; ObjLookup      *)
(* gives the last-duplicate-wins reading.                                    *)
EXTENDS Strings

CONSTANT GMaxDepth

Fail == [ok |-> FALSE, end |-> 0, tree |-> <<"fail">>]
Ok(e, t) == [ok |-> TRUE, end |-> e, tree |-> t]

At(s, i) == IF i <= Len(s) THEN s[i] ELSE -1     \* -1 = end of input

RECURSIVE SkipWS(_, _)
SkipWS(s, i) == IF i <= Len(s) /\ IsWS(s[i]) THEN SkipWS(s, i + 1) ELSE i

RECURSIVE Digits(_, _)
Digits(s, i) == IF i <= Len(s) /\ IsDigit(s[i]) THEN Digits(s, i + 1) ELSE i

\* end position (1-based, exclusive) of the string token whose opening quote is
\* at s[i]; 0 if it is malformed or unterminated
RECURSIVE StrEnd(_, _)
StrEnd(s, i) ==
  LET b == At(s, i) IN
  IF b = -1 THEN 0
  ELSE IF b = 34 THEN i + 1
  ELSE IF b = 92 THEN
     (IF IsSimpleEsc(At(s, i + 1)) THEN StrEnd(s, i + 2)
      ELSE IF At(s, i + 1) = 117 /\ U4(s, i + 2) >= 0 THEN StrEnd(s, i + 6)
      ELSE 0)
  ELSE IF IsCtl(b) THEN 0
  ELSE StrEnd(s, i + 1)

\* A number token starting at s[i] (committed choice: once '.', 'e' or 'E' has
\* been seen the digits they announce are owed).  0 if malformed.
NumEnd(s, i) ==
  LET j  == IF At(s, i) = 45 THEN i + 1 ELSE i
      ie == IF At(s, j) = 48 THEN j + 1 ELSE IF IsDig19(At(s, j)) THEN Digits(s, j) ELSE 0
  IN IF ie = 0 THEN 0 ELSE
     LET fe == IF At(s, ie) = 46 THEN (IF IsDigit(At(s, ie + 1)) THEN Digits(s, ie + 1) ELSE 0) ELSE ie
     IN IF fe = 0 THEN 0 ELSE
        IF At(s, fe) \in {101, 69}
          THEN LET es == IF At(s, fe + 1) \in {43, 45} THEN fe + 2 ELSE fe + 1
               IN IF IsDigit(At(s, es)) THEN Digits(s, es) ELSE 0
          ELSE fe

IsLit(s, i, w) == i + Len(w) - 1 <= Len(s) /\ SubSeq(s, i, i + Len(w) - 1) = w

RECURSIVE Val(_, _, _), Elems(_, _, _, _), Membs(_, _, _, _)
\* a value starting exactly at s[i] (no leading whitespace), at nesting depth d
Val(s, i, d) ==
  LET b == At(s, i) IN
  CASE b = 34 -> LET e == StrEnd(s, i + 1) IN
                 IF e = 0 THEN Fail ELSE Ok(e - 1, <<"str", DecodeContent(SubSeq(s, i + 1, e - 2))>>)
    [] b = 45 \/ IsDigit(b) -> LET e == NumEnd(s, i) IN
                 IF e = 0 THEN Fail ELSE Ok(e - 1, <<"num", SubSeq(s, i, e - 1)>>)
    [] b = 116 -> IF IsLit(s, i, <<116, 114, 117, 101>>) THEN Ok(i + 3, <<"true">>) ELSE Fail
    [] b = 102 -> IF IsLit(s, i, <<102, 97, 108, 115, 101>>) THEN Ok(i + 4, <<"false">>) ELSE Fail
    [] b = 110 -> IF IsLit(s, i, <<110, 117, 108, 108>>) THEN Ok(i + 3, <<"null">>) ELSE Fail
    [] b = 91 -> IF d >= GMaxDepth THEN Fail ELSE
                 LET j == SkipWS(s, i + 1) IN
                 IF At(s, j) = 93 THEN Ok(j, <<"arr", <<>> >>) ELSE Elems(s, j, d + 1, <<>>)
    [] b = 123 -> IF d >= GMaxDepth THEN Fail ELSE
                 LET j == SkipWS(s, i + 1) IN
                 IF At(s, j) = 125 THEN Ok(j, <<"obj", <<>> >>) ELSE Membs(s, j, d + 1, <<>>)
    [] OTHER -> Fail

\* elements of an array: s[i] is the first byte of an element
Elems(s, i, d, acc) ==
  LET v == Val(s, i, d) IN
  IF ~v.ok THEN Fail ELSE
  LET j == SkipWS(s, v.end + 1)  acc2 == Append(acc, v.tree) IN
  IF At(s, j) = 93 THEN Ok(j, <<"arr", acc2>>)
  ELSE IF At(s, j) = 44 THEN Elems(s, SkipWS(s, j + 1), d, acc2)
  ELSE Fail

\* members of an object: s[i] must be the opening quote of a key
Membs(s, i, d, acc) ==
  IF At(s, i) # 34 THEN Fail ELSE
  LET ke == StrEnd(s, i + 1) IN
  IF ke = 0 THEN Fail ELSE
  LET c == SkipWS(s, ke) IN
  IF At(s, c) # 58 THEN Fail ELSE
  LET v == Val(s, SkipWS(s, c + 1), d) IN
  IF ~v.ok THEN Fail ELSE
  LET j == SkipWS(s, v.end + 1)
      acc2 == Append(acc, <<DecodeContent(SubSeq(s, i + 1, ke - 2)), v.tree>>) IN
  IF At(s, j) = 125 THEN Ok(j, <<"obj", acc2>>)
  ELSE IF At(s, j) = 44 THEN Membs(s, SkipWS(s, j + 1), d, acc2)
  ELSE Fail

\* The first value of s after optional whitespace.
Value(s) == Val(s, SkipWS(s, 1), 0)

AllWSAfter(s, end) == \A i \in (end + 1)..Len(s) : IsWS(s[i])

\* last-duplicate-wins lookup in a member list
ObjKeys(ms) == {ms[i][1] : i \in 1..Len(ms)}
ObjLookup(ms, key) == ms[CHOOSE i \in 1..Len(ms) : ms[i][1] = key /\ \A j \in (i+1)..Len(ms) : ms[j][1] # key][2]
=============================================================================
