SPECIFICATION WalkSpec
CONSTANTS
  MaxDepth = 6
  MinLen = 40
  MaxLen = 300
CHECK_DEADLOCK FALSE
