SPECIFICATION Spec
CONSTANTS
  MaxDepth = 3
  N = 7
  Alphabet = "struct"
  MaxStr = 99
  EmitStates = FALSE
INVARIANTS MachineEqualsGrammar GrammarValid DoneIsStable CompletionAccepts DepthExact MunchMaximal
CHECK_DEADLOCK FALSE
