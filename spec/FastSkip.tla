------------------------------ MODULE FastSkip ------------------------------
(* Implementation-shaped model of SkipValueFast (skip_machine.rl:            *)
(* skip_json_value_fast, skip_array_fast_def, skip_object_fast_def): scalars *)
(* are read by the ordinary token automata; inside an array only [ ] and     *)
(* string tokens matter, inside an object only { } and string tokens; the    *)
(* call stack holds brackets of the outer container's kind only.             *)
(* Used for R1 (StrictImpliesFast, property C11) - never for a verdict about *)
(* the real code.                                                            *)
EXTENDS JSONMachine

\* f = [top: strict cfg while the top-level token is a scalar or not started,
\*      mode: "top" | "fast", kind: "A" | "O" | "", n: open brackets of that kind,
\*      sk: string sub-state (0 outside, 1 body, 2 after backslash, 3..6 hex digits owed),
\*      pos, out, end]
FastInit == [top |-> InitCfg, mode |-> "top", kind |-> "", n |-> 0, sk |-> 0, pos |-> 0, out |-> "run", end |-> 0]

FErr(f) == [f EXCEPT !.out = "err"]

FastStep(f, b) ==
  IF f.out # "run" THEN f
  ELSE IF f.mode = "top" THEN
    IF f.top.s.k = "V0" /\ b \in {91, 123} THEN
       [f EXCEPT !.mode = "fast", !.kind = IF b = 91 THEN "A" ELSE "O", !.n = 1, !.pos = f.pos + 1]
    ELSE LET t == Step(f.top, b) IN
         [f EXCEPT !.top = t, !.pos = t.pos, !.out = t.out, !.end = t.end]
  ELSE
    LET open == IF f.kind = "A" THEN 91 ELSE 123
        close == IF f.kind = "A" THEN 93 ELSE 125
        adv(g) == [g EXCEPT !.pos = f.pos + 1]
    IN CASE f.sk = 1 -> IF b = 34 THEN adv([f EXCEPT !.sk = 0])
                        ELSE IF b = 92 THEN adv([f EXCEPT !.sk = 2])
                        ELSE IF IsCtl(b) THEN FErr(f) ELSE adv(f)
         [] f.sk = 2 -> IF IsSimpleEsc(b) THEN adv([f EXCEPT !.sk = 1])
                        ELSE IF b = 117 THEN adv([f EXCEPT !.sk = 3]) ELSE FErr(f)
         [] f.sk >= 3 -> IF ~IsHex(b) THEN FErr(f)
                         ELSE adv([f EXCEPT !.sk = IF f.sk = 6 THEN 1 ELSE f.sk + 1])
         [] OTHER -> IF b = 34 THEN adv([f EXCEPT !.sk = 1])
                     ELSE IF b = open THEN (IF f.n >= MaxDepth THEN FErr(f) ELSE adv([f EXCEPT !.n = f.n + 1]))
                     ELSE IF b = close THEN
                        (IF f.n = 1 THEN [f EXCEPT !.n = 0, !.pos = f.pos + 1, !.out = "done", !.end = f.pos + 1]
                         ELSE adv([f EXCEPT !.n = f.n - 1]))
                     ELSE adv(f)

FastAtEOF(f) ==
  IF f.out # "run" THEN f
  ELSE IF f.mode = "top" THEN LET t == AtEOF(f.top) IN [f EXCEPT !.top = t, !.out = t.out, !.end = t.end]
  ELSE FErr(f)

FastRun(bytes) == FastAtEOF(FoldLeft(FastStep, FastInit, bytes))
=============================================================================
