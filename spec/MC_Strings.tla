------------------------------ MODULE MC_Strings ------------------------------
(* R1 for C06: three formulations of "well-formed string content" agree      *)
(* (fold automaton, recursive token scanner, grammar machine), decoding is   *)
(* total on well-formed content, and the decoded length never exceeds the    *)
(* source length - over all class strings up to N bytes between quotes.      *)
EXTENDS Api, TLC
CONSTANT N
M == INSTANCE JSONMachine WITH MaxDepth <- 3, cfg <- 0, inp <- 0
VARIABLE c
SAlpha == {34, 92, 117, 110, 47, 48, 65, 97, 102, 100, 68, 56, 98, 33, 9, 0, 128}
Init == c = <<>>
Next == Len(c) < N /\ \E b \in SAlpha : c' = Append(c, b)
Spec == Init /\ [][Next]_c
Tok == <<34>> \o c \o <<34>>
ThreeFormulations ==
  LET wf == WellFormedContent(c)
      t == ReadStringSpec(Tok)
      m == M!Skip(Tok)
  IN /\ wf = (t.ok /\ t.end = Len(c) + 2)
     /\ t.ok = m.ok /\ (t.ok => t.end = m.end)
DecodeTotal == WellFormedContent(c) => Len(DecodeContent(c)) <= Len(c)
\* unit facts about escapes and UTF-16 pairs
ASSUME /\ DecodeContent(<<92, 117, 68, 56, 51, 68, 92, 117, 100, 101, 48, 48>>) = <<240, 159, 152, 128>>   \* 😀
       /\ DecodeContent(<<92, 117, 100, 56, 48, 48, 120>>) = FFFD \o <<120>>                                   \* lone high
       /\ DecodeContent(<<92, 117, 100, 99, 48, 48, 92, 117, 100, 56, 48, 48>>) = FFFD \o FFFD                 \* low, high
       /\ DecodeContent(<<92, 117, 100, 56, 48, 48, 92, 117, 100, 56, 48, 48, 92, 117, 100, 99, 48, 48>>) = FFFD \o <<240, 144, 128, 128>>
       /\ DecodeContent(<<92, 110, 92, 34, 92, 92, 92, 47, 92, 98, 92, 102, 92, 114, 92, 116>>) = <<10, 34, 92, 47, 8, 12, 13, 9>>
       /\ DecodeContent(<<92, 117, 48, 48, 101, 57, 255, 92, 117, 50, 48, 97, 99>>) = <<195, 169, 255, 226, 130, 172>>
=============================================================================
