------------------------------ MODULE MC_Floats ------------------------------
(* R1 for C04: the rounding relation's own algebra, on a scaled-down format   *)
(* (4 significant bits, 3 exponent bits; bias 3; finite range up to 15 * 2^0  *)
(* ... largest finite 15 * 2^0 = 15? see MaxFinite): every decimal D * 10^E   *)
(* with D < 1000, |E| <= 4 has exactly one correctly rounded result or        *)
(* overflows, never both; rounding is monotone; sign symmetric.  This         *)
(* validates the operator definitions, not rjson.                             *)
EXTENDS Floats, TLC, FiniteSets
Small == [mb |-> 3, eb |-> 3, hi |-> 1000, lo |-> -1000, safe |-> 1]   \* values below 10 are finite (max finite is 15)
VARIABLES d, ex
Digs(n) == IF n < 10 THEN <<n>> ELSE IF n < 100 THEN <<n \div 10, n % 10>> ELSE <<n \div 100, (n \div 10) % 10, n % 10>>
\* literal record as Lit would produce it (trailing zeros stripped into E)
RECURSIVE Norm(_, _)
Norm(n, e) == IF n > 0 /\ n % 10 = 0 THEN Norm(n \div 10, e + 1) ELSE [n |-> n, e |-> e]
LitOf(n, e, neg) == LET m == Norm(n, e) IN [neg |-> neg, ds |-> IF m.n = 0 THEN <<>> ELSE Digs(m.n), E |-> IF m.n = 0 THEN 0 ELSE m.e, nint |-> 0]
\* the decimals are enumerated as a binary tree so that TLC's workers share the work
Init == d = 0 /\ ex \in -4..4
Next == \E n \in {2 * d + 1, 2 * d + 2} : n <= 999 /\ d' = n /\ UNCHANGED ex
Spec == Init /\ [][Next]_<<d, ex>>
Cands == {<<e, f>> : e \in 0..6, f \in 0..7}
Results(n, e, neg) == {c \in Cands : RoundedG(LitOf(n, e, neg), Small, IF neg THEN 1 ELSE 0, c[1], FromNat(c[2]))}
ExactlyOne == LET r == Results(d, ex, FALSE)  o == OverflowG(LitOf(d, ex, FALSE), Small) IN
              IF o THEN r = {} ELSE Cardinality(r) = 1
SignSymmetric == Results(d, ex, TRUE) = Results(d, ex, FALSE)
LexLeq(a, b) == a[1] < b[1] \/ (a[1] = b[1] /\ a[2] <= b[2])
Monotone == d < 999 =>
   LET r1 == Results(d, ex, FALSE)  r2 == Results(d + 1, ex, FALSE) IN
   \A a \in r1 : \A b \in r2 : LexLeq(a, b)
\* integers that are exactly representable round to themselves: n = M * 2^K
ExactIntegers == (ex = 0 /\ d >= 1 /\ d <= 15) =>
   \E c \in Results(d, 0, FALSE) :
      LET M == IF c[1] > 0 THEN 8 + c[2] ELSE c[2]  K == (IF c[1] > 0 THEN c[1] ELSE 1) - 3 - 3 IN
      IF K >= 0 THEN M * 2^K = d ELSE M = d * 2^(-K)
\* spot checks of the binary64 instance
ASSUME /\ Rounded(Lit(<<49>>), <<16368, 0, 0, 0>>)                        \* 1 = 0x3FF0...
       /\ ~Rounded(Lit(<<49>>), <<16368, 0, 0, 1>>)
       /\ Rounded(Lit(<<45, 48>>), <<32768, 0, 0, 0>>)                    \* -0
       /\ Rounded(Lit(<<48, 46, 49>>), <<16313, 39321, 39321, 39322>>)    \* 0.1 = 0x3FB999999999999A
       /\ ~Rounded(Lit(<<48, 46, 49>>), <<16313, 39321, 39321, 39321>>)
       /\ Rounded(Lit(<<53, 101, 45, 51, 50, 52>>), <<0, 0, 0, 1>>)       \* 5e-324 = min subnormal
       /\ Rounded(Lit(<<50, 101, 45, 51, 50, 52>>), <<0, 0, 0, 0>>)       \* 2e-324 -> 0
       /\ Rounded(Lit(<<51, 101, 45, 51, 50, 52>>), <<0, 0, 0, 1>>)       \* 3e-324 -> min subnormal
       /\ Overflow(Lit(<<49, 101, 51, 48, 57>>))                          \* 1e309
       /\ ~Overflow(Lit(<<49, 46, 55, 57, 55, 54, 57, 51, 49, 51, 52, 56, 54, 50, 51, 49, 53, 55, 101, 51, 48, 56>>))
       /\ Overflow(Lit(<<49, 46, 55, 57, 55, 54, 57, 51, 49, 51, 52, 56, 54, 50, 51, 49, 53, 57, 101, 51, 48, 56>>))
       /\ Rounded(Lit(<<49, 46, 55, 57, 55, 54, 57, 51, 49, 51, 52, 56, 54, 50, 51, 49, 53, 55, 101, 51, 48, 56>>), <<32751, 65535, 65535, 65535>>)
=============================================================================
