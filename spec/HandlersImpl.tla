---------------------------- MODULE HandlersImpl ----------------------------
(* Implementation-shaped model of handleArrayValues / handleObjectValues:    *)
(* the traversal is the grammar machine over the top-level container; at the *)
(* first byte of every member value the handler is called (entering action   *)
(* try_handler / try_handler_simple); for true/false/null/number members the *)
(* answer is ignored and the machine validates the token itself; for string, *)
(* array and object members a non-zero answer pp makes the machine take the  *)
(* transition of the opening byte (entering the "just opened" state, and for *)
(* containers pushing the return state) and then continue at index           *)
(* p + pp - 1, i.e. it processes the *last* byte of the value in the         *)
(* just-opened state (fexec p + pp - 1).  R1 (MC_HandlersImpl) checks that   *)
(* this refines the intended traversal of Handlers.tla for every document    *)
(* and every well-behaved strategy - the argument for why jumping to the     *)
(* last byte re-synchronises.  Never used for a verdict about the real code. *)
EXTENDS Handlers
M == INSTANCE JSONMachine WITH MaxDepth <- 1000, cfg <- 0, inp <- 0

IsValueStart(b) == b \in {34, 45, 91, 123, 116, 102, 110} \/ IsDigit(b)
UsesAnswer(b) == b \in {34, 91, 123}

\* the byte at 1-based index i starts a member value of the top-level container
AtMember(c, b) ==
  /\ c.out = "run" /\ Len(c.stk) = 1 /\ IsValueStart(b)
  /\ \/ c.s.k = "A0"
     \/ c.s.k = "V"

\* strat: sequence over {"zero", "exact"}; calls beyond its length answer "zero"
Answer(strat, k) == IF k <= Len(strat) THEN strat[k] ELSE "zero"

RECURSIVE Go(_, _, _, _, _)
Go(doc, strat, c, i, calls) ==
  IF c.out # "run" THEN [cfg |-> c, calls |-> calls, herr |-> FALSE]
  ELSE IF i > Len(doc) THEN [cfg |-> M!AtEOF(c), calls |-> calls, herr |-> FALSE]
  ELSE
    LET b == doc[i] IN
    IF AtMember(c, b) THEN
      LET calls2 == Append(calls, i - 1)
          a == Answer(strat, Len(calls2))
      IN IF a = "zero" \/ ~UsesAnswer(b) THEN Go(doc, strat, M!Step(c, b), i + 1, calls2)
         ELSE \* a well-behaved handler that answers "exact" has read the value itself
           LET v == Val(doc, i, 1) IN
           IF ~v.ok THEN [cfg |-> c, calls |-> calls2, herr |-> TRUE]       \* it propagates its own error
           ELSE LET c1 == M!Step(c, b)                                      \* transition of the opening byte
                    c2 == [c1 EXCEPT !.pos = v.end - 1]                     \* fexec p + pp - 1
                IN Go(doc, strat, c2, v.end, calls2)                        \* next byte processed: the value's last byte
    ELSE Go(doc, strat, M!Step(c, b), i + 1, calls)

\* The same traversal for *recorded* answers (any integer, any error): answers[k] = <<cls, pp, err>> as logged by the
\* harness (cls # 0: an answer far outside any input).  Used by TraceHandlers to check that this model is faithful
\* to the real code for hostile answers as well (conformance notes, never violations).
RECURSIVE GoRec(_, _, _, _, _)
GoRec(doc, answers, c, i, calls) ==
  IF c.out # "run" THEN [cfg |-> c, calls |-> calls, herr |-> FALSE, lerr |-> FALSE]
  ELSE IF i > Len(doc) THEN [cfg |-> M!AtEOF(c), calls |-> calls, herr |-> FALSE, lerr |-> FALSE]
  ELSE
    LET b == doc[i] IN
    IF AtMember(c, b) THEN
      LET calls2 == Append(calls, i - 1)
          k == Len(calls2)
          a == IF k <= Len(answers) THEN answers[k] ELSE <<0, 0, 0>>
      IN IF a[3] # 0 THEN [cfg |-> c, calls |-> calls2, herr |-> TRUE, lerr |-> FALSE]
         ELSE IF ~UsesAnswer(b) \/ (a[1] = 0 /\ a[2] = 0) THEN GoRec(doc, answers, M!Step(c, b), i + 1, calls2)
         ELSE IF a[1] # 0 \/ a[2] < 0 \/ a[2] > Len(doc) - (i - 1)
           THEN [cfg |-> c, calls |-> calls2, herr |-> FALSE, lerr |-> TRUE]          \* errPOutOfRange
         ELSE LET c1 == M!Step(c, b)
                  c2 == [c1 EXCEPT !.pos = (i - 1) + a[2] - 1]
              IN GoRec(doc, answers, c2, (i - 1) + a[2], calls2)
    ELSE GoRec(doc, answers, M!Step(c, b), i + 1, calls)

ImplRunRec(doc, kind, answers) ==
  LET i0 == SkipWS(doc, 1)
      b0 == At(doc, i0)
      open == IF kind = "A" THEN 91 ELSE 123
  IN IF b0 # 110 /\ b0 # open THEN [ok |-> FALSE, end |-> 0, calls |-> <<>>]
     ELSE LET r == GoRec(doc, answers, M!InitCfg, 1, <<>>) IN
          [ok |-> r.cfg.out = "done" /\ ~r.herr /\ ~r.lerr, end |-> r.cfg.end, calls |-> r.calls]

\* main := json_space* ( json_null | '[' ... ']' )   (resp. '{' ... '}')
ImplRun(doc, kind, strat) ==
  LET i0 == SkipWS(doc, 1)
      b0 == At(doc, i0)
      open == IF kind = "A" THEN 91 ELSE 123
  IN IF b0 # 110 /\ b0 # open THEN [ok |-> FALSE, end |-> 0, calls |-> <<>>, herr |-> FALSE]
     ELSE LET r == Go(doc, strat, M!InitCfg, 1, <<>>) IN
          [ok |-> r.cfg.out = "done" /\ ~r.herr, end |-> r.cfg.end, calls |-> r.calls, herr |-> r.herr]
=============================================================================
