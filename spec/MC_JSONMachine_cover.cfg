SPECIFICATION Spec
CONSTANTS
  MaxDepth = 3
  N = 40
  Alphabet = "full"
  MaxStr = 99
  EmitStates = TRUE
VIEW View
INVARIANTS MachineEqualsGrammar GrammarValid DoneIsStable CompletionAccepts ClassSound DepthExact MunchMaximal Emit
CHECK_DEADLOCK FALSE
