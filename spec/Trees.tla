-------------------------------- MODULE Trees --------------------------------
(* Value trees (C03, C15, C17): matching a tree computed by the grammar with  *)
(* a tree recorded from the implementation.                                   *)
(*   specification trees (JSONGrammar):  <<"num", literal bytes>>, objects as  *)
(*     member lists in document order with duplicates                          *)
(*   recorded trees:  <<"num", <<w3, w2, w1, w0>> >> (float64 bits), objects as *)
(*     lists of <<key bytes, value>> with unique keys                          *)
EXTENDS JSONGrammar, Floats, FiniteSets

RECURSIVE HasOverflow(_)
HasOverflow(t) ==
  CASE t[1] = "num" -> Overflow(Lit(t[2]))
    [] t[1] = "arr" -> \E i \in 1..Len(t[2]) : HasOverflow(t[2][i])
    [] t[1] = "obj" -> \E i \in 1..Len(t[2]) : HasOverflow(t[2][i][2])
    [] OTHER -> FALSE

RECURSIVE TreeDepth(_)
TreeDepth(t) ==
  CASE t[1] = "arr" -> 1 + FoldLeft(LAMBDA acc, x : LET d == TreeDepth(x) IN IF d > acc THEN d ELSE acc, 0, t[2])
    [] t[1] = "obj" -> 1 + FoldLeft(LAMBDA acc, x : LET d == TreeDepth(x[2]) IN IF d > acc THEN d ELSE acc, 0, t[2])
    [] OTHER -> 0

\* san = TRUE: strings and keys are compared after encoding/json's UTF-8 replacement
\* (the one permitted difference); objects whose keys collide after replacement
\* are outside the property and match anything.
SStr(b, san) == IF san THEN Utf8Sanitize(b) ELSE b

RECURSIVE TreeMatch(_, _, _)
TreeMatch(t, r, san) ==
  CASE t[1] \in {"null", "true", "false"} -> r = t
    [] t[1] = "num" -> r[1] = "num" /\ Rounded(Lit(t[2]), r[2])
    [] t[1] = "str" -> r = <<"str", SStr(t[2], san)>>
    [] t[1] = "arr" -> /\ r[1] = "arr" /\ Len(r[2]) = Len(t[2])
                       /\ \A i \in 1..Len(t[2]) : TreeMatch(t[2][i], r[2][i], san)
    [] t[1] = "obj" ->
         /\ r[1] = "obj"
         /\ LET ms == t[2]
                keys == ObjKeys(ms)
                skeys == {SStr(k, san) : k \in keys}
                collide == Cardinality(skeys) # Cardinality(keys)
            IN collide \/
               /\ Len(r[2]) = Cardinality(keys)
               /\ {r[2][i][1] : i \in 1..Len(r[2])} = skeys
               /\ \A i \in 1..Len(r[2]) :
                    LET k == CHOOSE k \in keys : SStr(k, san) = r[2][i][1]
                    IN TreeMatch(ObjLookup(ms, k), r[2][i][2], san)
    [] OTHER -> FALSE

\* recorded tree -> recorded tree: what the StdLibCompatible slice/map helpers must return
RECURSIVE SanEq(_, _)
SanEq(a, b) ==    \* b is the sanitised copy of recorded tree a
  CASE a[1] = "str" -> b = <<"str", Utf8Sanitize(a[2])>>
    [] a[1] = "arr" -> b[1] = "arr" /\ Len(b[2]) = Len(a[2]) /\ \A i \in 1..Len(a[2]) : SanEq(a[2][i], b[2][i])
    [] a[1] = "obj" ->
         /\ b[1] = "obj"
         /\ LET ks == {a[2][i][1] : i \in 1..Len(a[2])}
                sks == {Utf8Sanitize(k) : k \in ks}
            IN Cardinality(sks) # Cardinality(ks) \/
               /\ Len(b[2]) = Len(a[2])
               /\ \A i \in 1..Len(a[2]) : \E j \in 1..Len(b[2]) :
                     b[2][j][1] = Utf8Sanitize(a[2][i][1]) /\ SanEq(a[2][i][2], b[2][j][2])
    [] OTHER -> b = a
=============================================================================
