-------------------------------- MODULE Api --------------------------------
(* The remaining exported surface as functions of the input (and, for Decode, *)
(* of the reader's outcome and the prior target): token classification, the   *)
(* literal readers, type exclusivity, Decode, string tokens.  C12 C13 C06.    *)
EXTENDS Strings

\* ---- token table (C13) --------------------------------------------------------
\* TokenType numbering of the library: 0 invalid, 1 null, 2 string, 3 number,
\* 4 true, 5 false, 6 object start, 7 object end, 8 array start, 9 array end,
\* 10 comma, 11 colon
TokenType(b) ==
  CASE b = 110 -> 1 [] b = 34 -> 2 [] b = 45 \/ IsDigit(b) -> 3 [] b = 116 -> 4 [] b = 102 -> 5
    [] b = 123 -> 6 [] b = 125 -> 7 [] b = 91 -> 8 [] b = 93 -> 9 [] b = 44 -> 10 [] b = 58 -> 11
    [] OTHER -> 0

\* TokenType.String: the documented names, and a formatted fallback for every other value of the exported type
TokenName(t) ==
  CASE t = 0 -> "invalid" [] t = 1 -> "null" [] t = 2 -> "string" [] t = 3 -> "number" [] t = 4 -> "true"
    [] t = 5 -> "false" [] t = 6 -> "object start" [] t = 7 -> "object end" [] t = 8 -> "array start"
    [] t = 9 -> "array end" [] t = 10 -> "comma" [] t = 11 -> "colon"
    [] OTHER -> "unknown type (" \o ToString(t) \o ")"

RECURSIVE AWS(_, _)
AWS(s, i) == IF i <= Len(s) /\ IsWS(s[i]) THEN AWS(s, i + 1) ELSE i
AAt(s, i) == IF i <= Len(s) THEN s[i] ELSE -1

\* NextToken / NextTokenType: [eof, b, p, type]
NextTok(s) == LET i == AWS(s, 1) IN
  IF i > Len(s) THEN [eof |-> TRUE, b |-> 0, p |-> Len(s), type |-> 0]
  ELSE [eof |-> FALSE, b |-> s[i], p |-> i, type |-> TokenType(s[i])]

\* the type a typed reader reads: class ids used by the harness
\*  "null" 1, "string" 2, "number" 3, "bool" 4 (true or false), "object" 6, "array" 8
TypeClass(t) == IF t = 5 THEN 4 ELSE t

\* literal readers: [ok, end, val]
HasLit(s, i, w) == i + Len(w) - 1 <= Len(s) /\ SubSeq(s, i, i + Len(w) - 1) = w
ReadNullSpec(s) == LET i == AWS(s, 1) IN
  IF HasLit(s, i, <<110, 117, 108, 108>>) THEN [ok |-> TRUE, end |-> i + 3] ELSE [ok |-> FALSE, end |-> 0]
ReadBoolSpec(s) == LET i == AWS(s, 1) IN
  IF HasLit(s, i, <<116, 114, 117, 101>>) THEN [ok |-> TRUE, end |-> i + 3, val |-> 1]
  ELSE IF HasLit(s, i, <<102, 97, 108, 115, 101>>) THEN [ok |-> TRUE, end |-> i + 4, val |-> 0]
  ELSE [ok |-> FALSE, end |-> 0, val |-> 0]

\* ---- string tokens (C06) ---------------------------------------------------------
RECURSIVE StrTokEnd(_, _)
StrTokEnd(s, i) ==     \* i: first byte after the opening quote; result 1-based exclusive, 0 = malformed
  LET b == AAt(s, i) IN
  IF b = -1 THEN 0
  ELSE IF b = 34 THEN i + 1
  ELSE IF b = 92 THEN (IF IsSimpleEsc(AAt(s, i + 1)) THEN StrTokEnd(s, i + 2)
                       ELSE IF AAt(s, i + 1) = 117 /\ U4(s, i + 2) >= 0 THEN StrTokEnd(s, i + 6)
                       ELSE 0)
  ELSE IF IsCtl(b) THEN 0
  ELSE StrTokEnd(s, i + 1)

\* [ok, end, content (raw bytes between the quotes), val (decoded)]
ReadStringSpec(s) == LET i == AWS(s, 1) IN
  IF AAt(s, i) # 34 THEN [ok |-> FALSE, end |-> 0, content |-> <<>>, val |-> <<>>]
  ELSE LET e == StrTokEnd(s, i + 1) IN
       IF e = 0 THEN [ok |-> FALSE, end |-> 0, content |-> <<>>, val |-> <<>>]
       ELSE LET c == SubSeq(s, i + 1, e - 2) IN [ok |-> TRUE, end |-> e - 1, content |-> c, val |-> DecodeContent(c)]

\* ---- Decode (C12) ------------------------------------------------------------------
\* rd: the corresponding reader's outcome [ok, p, val]; prior: the target before the call.
\* Result: [ok, p (meaningful when ok), target]
DecodeSpec(s, rd, prior) ==
  IF rd.ok THEN [ok |-> TRUE, p |-> rd.p, target |-> rd.val]
  ELSE LET n == ReadNullSpec(s) IN
       IF n.ok THEN [ok |-> TRUE, p |-> n.end, target |-> prior]
       ELSE [ok |-> FALSE, p |-> 0, target |-> prior]
=============================================================================
