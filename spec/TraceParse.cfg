SPECIFICATION TraceSpec
CONSTANTS
  MaxDepth = 10000
INVARIANT Finished
CHECK_DEADLOCK FALSE
