SPECIFICATION Spec
CONSTANTS
  Procs = {1, 2, 3}
  Inputs = {1, 2, 3}
  Variant = "private"
INVARIANT SequentialResults
CHECK_DEADLOCK FALSE
