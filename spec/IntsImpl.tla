------------------------------ MODULE IntsImpl ------------------------------
(* Implementation-shaped model of the integer readers (simple_readers.go):    *)
(* ReadUint64 = whitespace, the lone-zero exit, an UNCHECKED loop over the    *)
(* first Fast digits, a CHECKED loop (cutoff test, then wrap-around test) over *)
(* the rest, the follow-byte test; ReadInt64 = sign handling around           *)
(* ReadUint64 on the remainder with the two asymmetric bounds; the 32-bit     *)
(* readers = the 64-bit ones plus a range test.  The machine word is a        *)
(* parameter (Mod = 2^bits) so that TLC can run the algorithm exhaustively on  *)
(* small words (R1: MC_IntsImpl); what the algorithm returns is stated a       *)
(* second time over digit sequences (UOff / SOff below), proved equal to the   *)
(* word-level algorithm on the small words, and compared with the real 64-bit  *)
(* functions on every recorded integer event (TraceValues: conformance notes,  *)
(* because the offset returned together with an error is not part of C05).     *)
EXTENDS Ints

\* result of a reader: ok, value (word-level model) and the 0-based offset p it returns (also with an error)
IR(ok, v, p) == [ok |-> ok, v |-> v, p |-> p]

\* ------------------------------------------------------------------ word level
\* unchecked loop: at most Fast digits, value accumulates modulo the word
RECURSIVE Loop1(_, _, _, _, _, _)
Loop1(s, i, start, v, Fast, Mod) ==
  IF i <= Len(s) /\ i - start # Fast /\ IsDigit(s[i])
  THEN Loop1(s, i + 1, start, (v * 10 + (s[i] - 48)) % Mod, Fast, Mod)
  ELSE [i |-> i, v |-> v]

\* checked loop: "val > cutoff" before the multiplication, "newVal < val" after it
RECURSIVE Loop2(_, _, _, _, _)
Loop2(s, i, v, Cutoff, Mod) ==
  IF i <= Len(s) /\ IsDigit(s[i])
  THEN IF v > Cutoff THEN [i |-> i, v |-> v, ovf |-> TRUE]
       ELSE LET nv == (v * 10 + (s[i] - 48)) % Mod IN
            IF nv < v THEN [i |-> i, v |-> v, ovf |-> TRUE]
            ELSE Loop2(s, i + 1, nv, Cutoff, Mod)
  ELSE [i |-> i, v |-> v, ovf |-> FALSE]

\* ReadUint64 on s (1-based positions; the returned p is 0-based = position - 1)
UWord(s, Fast, Mod) ==
  LET Cutoff == (Mod - 1) \div 10 + 1
      i0 == IWS(s, 1)
  IN IF i0 > Len(s) THEN IR(FALSE, 0, i0 - 1)
     ELSE IF s[i0] = 48 THEN
            IF IAt(s, i0 + 1) \in {46, 101, 69} THEN IR(FALSE, 0, i0) ELSE IR(TRUE, 0, i0)
     ELSE LET a == Loop1(s, i0, i0, 0, Fast, Mod)
              b == IF a.i - i0 = Fast THEN Loop2(s, a.i, a.v, Cutoff, Mod) ELSE [i |-> a.i, v |-> a.v, ovf |-> FALSE]
          IN IF b.ovf THEN IR(FALSE, 0, b.i - 1)
             ELSE IF b.i = i0 THEN IR(FALSE, 0, b.i - 1)
             ELSE IF IAt(s, b.i) \in {46, 101, 69} THEN IR(FALSE, 0, b.i - 1)
             ELSE IR(TRUE, b.v, b.i - 1)

Drop(s, k) == SubSeq(s, k + 1, Len(s))      \* data[k:]

\* ReadInt64: the value is returned as sign and magnitude
SWord(s, Fast, Mod) ==
  LET Half == Mod \div 2
      i0 == IWS(s, 1)
  IN IF i0 > Len(s) THEN [ok |-> FALSE, neg |-> FALSE, v |-> 0, p |-> i0 - 1]
     ELSE LET neg == s[i0] = 45
              j == IF neg THEN i0 + 1 ELSE i0
          IN IF neg /\ (j > Len(s) \/ IsWS(s[j])) THEN [ok |-> FALSE, neg |-> FALSE, v |-> 0, p |-> j - 1]
             ELSE LET u == UWord(Drop(s, j - 1), Fast, Mod)
                      p == (j - 1) + u.p
                  IN IF ~u.ok THEN [ok |-> FALSE, neg |-> FALSE, v |-> 0, p |-> p]
                     ELSE IF neg /\ u.v > Half THEN [ok |-> FALSE, neg |-> FALSE, v |-> 0, p |-> p]
                     ELSE IF ~neg /\ u.v >= Half THEN [ok |-> FALSE, neg |-> FALSE, v |-> 0, p |-> p]
                     ELSE [ok |-> TRUE, neg |-> neg /\ u.v # 0, v |-> u.v, p |-> p]

\* the narrower readers: the wide reader, then a range test (ReadUint32, ReadInt32)
UNarrow(s, Fast, Mod, UMax) ==
  LET u == UWord(s, Fast, Mod) IN IF u.ok /\ u.v > UMax THEN IR(FALSE, 0, u.p) ELSE u
SNarrow(s, Fast, Mod, MaxP, MaxN) ==
  LET r == SWord(s, Fast, Mod) IN
  IF r.ok /\ ((r.neg /\ r.v > MaxN) \/ (~r.neg /\ r.v > MaxP)) THEN [r EXCEPT !.ok = FALSE, !.neg = FALSE, !.v = 0] ELSE r

\* ------------------------------------------------------- digit-sequence level
\* The same results without word arithmetic: where the algorithm stops and what it says, in terms of
\* comparisons of digit sequences with the type's bounds.  This is the form that can be evaluated for the
\* real 64-bit word on recorded inputs.
Digs(s, a, b) == [k \in 1..(b - a) |-> s[a + k - 1] - 48]         \* digits at positions a .. b-1

\* first position i in a .. e-1 such that the digits a..i exceed max; e if there is none
RECURSIVE FirstOver(_, _, _, _, _)
FirstOver(s, a, i, e, max) ==
  IF i >= e THEN e
  ELSE IF ~DigitsLeq(Digs(s, a, i + 1), max) THEN i
  ELSE FirstOver(s, a, i + 1, e, max)

\* ReadUint64 with bound umax: [ok, p, a, e] (digits at a .. e-1 when ok)
UOff(s, umax) ==
  LET i0 == IWS(s, 1) IN
  IF i0 > Len(s) THEN [ok |-> FALSE, p |-> i0 - 1, a |-> 0, e |-> 0]
  ELSE IF s[i0] = 48 THEN [ok |-> IAt(s, i0 + 1) \notin {46, 101, 69}, p |-> i0, a |-> i0, e |-> i0 + 1]
  ELSE LET e == IDigits(s, i0)
           o == FirstOver(s, i0, i0, e, umax)
       IN IF o < e THEN [ok |-> FALSE, p |-> o - 1, a |-> 0, e |-> 0]          \* stops AT the digit that overflows
          ELSE IF e = i0 THEN [ok |-> FALSE, p |-> e - 1, a |-> 0, e |-> 0]
          ELSE [ok |-> IAt(s, e) \notin {46, 101, 69}, p |-> e - 1, a |-> i0, e |-> e]

SOff(s, umax, smaxp, smaxn) ==
  LET i0 == IWS(s, 1) IN
  IF i0 > Len(s) THEN [ok |-> FALSE, p |-> i0 - 1]
  ELSE LET neg == s[i0] = 45
           j == IF neg THEN i0 + 1 ELSE i0
       IN IF neg /\ (j > Len(s) \/ IsWS(s[j])) THEN [ok |-> FALSE, p |-> j - 1]
          ELSE LET u == UOff(Drop(s, j - 1), umax)
                   p == (j - 1) + u.p
                   ds == Digs(Drop(s, j - 1), u.a, u.e)
               IN IF ~u.ok THEN [ok |-> FALSE, p |-> p]
                  ELSE [ok |-> DigitsLeq(ds, IF neg THEN smaxn ELSE smaxp), p |-> p]

\* what each exported reader returns as (ok, p), by type
ImplOff(s, type) ==
  CASE type = "u64" -> LET u == UOff(s, MaxPos("u64")) IN [ok |-> u.ok, p |-> u.p]
    [] type = "u32" -> LET u == UOff(s, MaxPos("u64")) IN
                       [ok |-> u.ok /\ DigitsLeq(Digs(s, u.a, u.e), MaxPos("u32")), p |-> u.p]
    [] type = "i64" -> SOff(s, MaxPos("u64"), MaxPos("i64"), MaxNeg("i64"))
    [] type = "i32" -> LET r == SOff(s, MaxPos("u64"), MaxPos("i64"), MaxNeg("i64"))
                           q == SOff(s, MaxPos("u64"), MaxPos("i32"), MaxNeg("i32"))
                       IN [ok |-> r.ok /\ q.ok, p |-> r.p]
=============================================================================
