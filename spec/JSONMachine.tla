---------------------------- MODULE JSONMachine ----------------------------
(* The RFC 8259 recogniser as an explicit pushdown machine, one transition   *)
(* per input byte.  This is the intended behaviour of rjson's skipValue      *)
(* machine (Valid, SkipValue), and the reference that every other reader of  *)
(* the library is specified against.                                         *)
(*                                                                           *)
(* A configuration is  [s, stk, pos, out, end]:                              *)
(*   s    control state  [k, c, x, n, w]                                     *)
(*          k  kind of state (see Step)                                      *)
(*          c  position context of the value being read: "T" top level,     *)
(*             "A1"/"A2" first/later array element, "O1"/"O2" first/later    *)
(*             member value, "K1"/"K2" first/later key                       *)
(*          x  sub-context (previous string element, literal, digit, kind of *)
(*             value that just ended)                                        *)
(*          n  progress counter inside literals and \u escapes               *)
(*          w  1 when whitespace has been seen in a whitespace-skipping state*)
(*        c, x, w do not influence the language; they exist because the     *)
(*        implementation's automata are generated without minimisation, so   *)
(*        every syntactic position has a private copy of each token          *)
(*        automaton and exploration must visit the copies.                   *)
(*   stk  container stack, innermost last:  <<"A"|"O", ctx of the container>>*)
(*   pos  number of bytes consumed so far                                    *)
(*   out  "run" | "done" | "err"                                             *)
(*   end  when done: index (0-based, exclusive) of the end of the value      *)
EXTENDS Bytes, SequencesExt, Folds, Functions

CONSTANT MaxDepth      \* nesting limit (10000 in rjson, small in exhaustive runs)

St(k, c, x, n, w) == [k |-> k, c |-> c, x |-> x, n |-> n, w |-> w]

InitCfg == [s |-> St("V0", "T", "", 0, 0), stk |-> <<>>, pos |-> 0, out |-> "run", end |-> 0]

Err(cfg)  == [cfg EXCEPT !.out = "err"]
Literal(l) == CASE l = "t" -> <<116, 114, 117, 101>>
                [] l = "f" -> <<102, 97, 108, 115, 101>>
                [] l = "n" -> <<110, 117, 108, 108>>

\* sub-context of a string body state just after a simple escape: one per escape, because the
\* implementation's automata have one state per escape
EscCtx(b) == CASE b = 34 -> "eq" [] b = 92 -> "eb" [] b = 47 -> "es" [] b = 98 -> "e8" [] b = 102 -> "ef"
               [] b = 110 -> "en" [] b = 114 -> "er" [] b = 116 -> "et" [] OTHER -> "e"

\* which shape of number just ended (integer, with fraction, exponent only, fraction and exponent): the
\* implementation reaches different states after each (for Ne/Ns/Nx the field n records a fraction)
NumKind(s) == CASE s.k \in {"N0", "Ni"} -> "ni" [] s.k = "Nf" -> "nf"
                [] s.k = "Nx" -> (IF s.n = 1 THEN "nfx" ELSE "nx") [] OTHER -> "n"

\* state after a complete value of kind vk that sat at context ctx, given the
\* stack *after* any pop
AfterValue(cfg, stk, ctx, vk) ==
  IF stk = <<>> THEN [cfg EXCEPT !.s = St("DONE", ctx, vk, 0, 0), !.stk = stk, !.out = "done",
                                 !.end = cfg.pos + 1, !.pos = cfg.pos + 1]
  ELSE [cfg EXCEPT !.s = St(IF Last(stk)[1] = "A" THEN "AV" ELSE "OV", ctx, vk, 0, 0),
                   !.stk = stk, !.pos = cfg.pos + 1]

Pop(cfg) == LET top == Last(cfg.stk) IN AfterValue(cfg, Front(cfg.stk), top[2], "c")

Go(cfg, s) == [cfg EXCEPT !.s = s, !.pos = cfg.pos + 1]

\* first byte of a value at context ctx
ValueStart(cfg, ctx, b) ==
  CASE b = 34 -> Go(cfg, St("S", ctx, "0", 0, 0))
    [] b = 45 -> Go(cfg, St("Nm", ctx, "", 0, 0))
    [] b = 48 -> Go(cfg, St("N0", ctx, "", 0, 0))
    [] IsDig19(b) -> Go(cfg, St("Ni", ctx, "1", 0, 0))
    [] b = 116 -> Go(cfg, St("L", ctx, "t", 1, 0))
    [] b = 102 -> Go(cfg, St("L", ctx, "f", 1, 0))
    [] b = 110 -> Go(cfg, St("L", ctx, "n", 1, 0))
    [] b = 91 -> IF Len(cfg.stk) >= MaxDepth THEN Err(cfg)
                 ELSE [cfg EXCEPT !.s = St("A0", ctx, "", 0, 0), !.stk = Append(cfg.stk, <<"A", ctx>>),
                                  !.pos = cfg.pos + 1]
    [] b = 123 -> IF Len(cfg.stk) >= MaxDepth THEN Err(cfg)
                  ELSE [cfg EXCEPT !.s = St("O0", ctx, "", 0, 0), !.stk = Append(cfg.stk, <<"O", ctx>>),
                                   !.pos = cfg.pos + 1]
    [] OTHER -> Err(cfg)

\* a whitespace-skipping state that has now seen whitespace
Ws(cfg) == [cfg EXCEPT !.s.w = 1, !.pos = cfg.pos + 1]

RECURSIVE Step(_, _)
Step(cfg, b) ==
  IF cfg.out # "run" THEN cfg ELSE
  LET s == cfg.s  k == s.k  c == s.c IN
  CASE k = "V0" -> IF IsWS(b) THEN Ws(cfg) ELSE ValueStart(cfg, "T", b)
    [] k = "V"  -> IF IsWS(b) THEN Ws(cfg) ELSE ValueStart(cfg, c, b)
    [] k = "A0" -> IF IsWS(b) THEN Ws(cfg)
                   ELSE IF b = 93 THEN Pop(cfg)
                   ELSE ValueStart(cfg, "A1", b)
    [] k = "AV" -> IF IsWS(b) THEN Ws(cfg)
                   ELSE IF b = 44 THEN Go(cfg, St("V", "A2", "", 0, 0))
                   ELSE IF b = 93 THEN Pop(cfg)
                   ELSE Err(cfg)
    [] k = "O0" -> IF IsWS(b) THEN Ws(cfg)
                   ELSE IF b = 34 THEN Go(cfg, St("S", "K1", "0", 0, 0))
                   ELSE IF b = 125 THEN Pop(cfg)
                   ELSE Err(cfg)
    [] k = "OK" -> IF IsWS(b) THEN Ws(cfg)
                   ELSE IF b = 34 THEN Go(cfg, St("S", "K2", "0", 0, 0))
                   ELSE Err(cfg)
    [] k = "OC" -> IF IsWS(b) THEN Ws(cfg)
                   ELSE IF b = 58 THEN Go(cfg, St("V", IF c = "K1" THEN "O1" ELSE "O2", "", 0, 0))
                   ELSE Err(cfg)
    [] k = "OV" -> IF IsWS(b) THEN Ws(cfg)
                   ELSE IF b = 44 THEN Go(cfg, St("OK", c, "", 0, 0))
                   ELSE IF b = 125 THEN Pop(cfg)
                   ELSE Err(cfg)
    [] k = "S"  -> IF b = 34 THEN (IF c \in {"K1", "K2"} THEN Go(cfg, St("OC", c, "", 0, 0))
                                   ELSE AfterValue(cfg, cfg.stk, c, "s"))
                   ELSE IF b = 92 THEN Go(cfg, St("SE", c, "", 0, 0))
                   ELSE IF IsCtl(b) THEN Err(cfg)
                   ELSE Go(cfg, St("S", c, "p", 0, 0))
    [] k = "SE" -> IF IsSimpleEsc(b) THEN Go(cfg, St("S", c, EscCtx(b), 0, 0))
                   ELSE IF b = 117 THEN Go(cfg, St("SU", c, "", 0, 0))
                   ELSE Err(cfg)
    [] k = "SU" -> IF ~IsHex(b) THEN Err(cfg)
                   ELSE IF s.n = 3 THEN Go(cfg, St("S", c, "u", 0, 0))
                   ELSE Go(cfg, St("SU", c, "", s.n + 1, 0))
    [] k = "L"  -> LET w == Literal(s.x) IN
                   IF b # w[s.n + 1] THEN Err(cfg)
                   ELSE IF s.n + 1 = Len(w) THEN AfterValue(cfg, cfg.stk, c, "l")
                   ELSE Go(cfg, St("L", c, s.x, s.n + 1, 0))
    [] k = "Nm" -> IF b = 48 THEN Go(cfg, St("N0", c, "", 0, 0))
                   ELSE IF IsDig19(b) THEN Go(cfg, St("Ni", c, "1", 0, 0))
                   ELSE Err(cfg)
    [] k = "Nd" -> IF IsDigit(b) THEN Go(cfg, St("Nf", c, "1", 0, 0)) ELSE Err(cfg)
    [] k = "Ne" -> IF b \in {43, 45} THEN Go(cfg, St("Ns", c, "", s.n, 0))
                   ELSE IF IsDigit(b) THEN Go(cfg, St("Nx", c, "1", s.n, 0))
                   ELSE Err(cfg)
    [] k = "Ns" -> IF IsDigit(b) THEN Go(cfg, St("Nx", c, "1", s.n, 0)) ELSE Err(cfg)
    [] k \in {"N0", "Ni", "Nf", "Nx"} ->
          IF k # "N0" /\ IsDigit(b) THEN Go(cfg, St(k, c, "2", s.n, 0))
          ELSE IF k \in {"N0", "Ni"} /\ b = 46 THEN Go(cfg, St("Nd", c, "", 0, 0))
          ELSE IF k # "Nx" /\ b \in {101, 69} THEN Go(cfg, St("Ne", c, "", IF k = "Nf" THEN 1 ELSE 0, 0))
          ELSE \* the number ended one byte ago: epsilon-move, then re-examine b
            IF cfg.stk = <<>>
              THEN [cfg EXCEPT !.s = St("DONE", c, NumKind(s), 0, 0), !.out = "done", !.end = cfg.pos]
              ELSE Step([cfg EXCEPT !.s = St(IF Last(cfg.stk)[1] = "A" THEN "AV" ELSE "OV", c, NumKind(s), 0, 0)], b)
    [] OTHER -> Err(cfg)

\* End of input.
AtEOF(cfg) ==
  IF cfg.out # "run" THEN cfg
  ELSE IF cfg.stk = <<>> /\ cfg.s.k \in {"N0", "Ni", "Nf", "Nx"}
    THEN [cfg EXCEPT !.s = St("DONE", cfg.s.c, NumKind(cfg.s), 0, 0), !.out = "done", !.end = cfg.pos]
  ELSE Err(cfg)

RunFrom(cfg, bytes) == FoldLeft(Step, cfg, bytes)
Run(bytes) == AtEOF(RunFrom(InitCfg, bytes))

\* ---- derived, property-level operators -------------------------------------
\* Skip: the first complete value after optional whitespace, maximal munch.
Skip(bytes) == LET r == Run(bytes) IN [ok |-> r.out = "done", end |-> r.end]

AllWS(bytes, from) == \A i \in (from + 1)..Len(bytes) : IsWS(bytes[i])
IsValid(bytes) == LET r == Skip(bytes) IN r.ok /\ AllWS(bytes, r.end)

\* the deepest nesting reached while reading the first value (prefix up to the
\* point the machine stopped)
MaxDepthReached(bytes) ==
  FoldLeft(LAMBDA acc, b : LET c2 == Step(acc.cfg, b)
                            IN [cfg |-> c2, d |-> IF Len(c2.stk) > acc.d THEN Len(c2.stk) ELSE acc.d],
           [cfg |-> InitCfg, d |-> 0], bytes).d

\* A canonical completion: bytes that, appended to a viable prefix, finish the
\* value.  (Used to turn every reachable state into accepted documents.)
CloseStack(stk) == [i \in 1..Len(stk) |-> IF stk[Len(stk) + 1 - i][1] = "A" THEN 93 ELSE 125]
TokenCompletion(s) ==
  CASE s.k \in {"V0", "V"} -> <<48>>
    [] s.k = "A0" -> <<>>
    [] s.k = "O0" -> <<>>
    [] s.k = "AV" -> <<>>
    [] s.k = "OV" -> <<>>
    [] s.k = "OK" -> <<34, 34, 58, 48>>
    [] s.k = "OC" -> <<58, 48>>
    [] s.k = "S"  -> IF s.c \in {"K1", "K2"} THEN <<34, 58, 48>> ELSE <<34>>
    [] s.k = "SE" -> IF s.c \in {"K1", "K2"} THEN <<110, 34, 58, 48>> ELSE <<110, 34>>
    [] s.k = "SU" -> [i \in 1..(4 - s.n) |-> 48] \o (IF s.c \in {"K1", "K2"} THEN <<34, 58, 48>> ELSE <<34>>)
    [] s.k = "L"  -> LET w == Literal(s.x) IN SubSeq(w, s.n + 1, Len(w))
    [] s.k \in {"Nm", "Nd", "Ne", "Ns"} -> <<49>>
    [] s.k \in {"N0", "Ni", "Nf", "Nx", "DONE"} -> <<>>
Completion(cfg) == TokenCompletion(cfg.s) \o CloseStack(cfg.stk)

\* ---- the machine as a behaviour ---------------------------------------------
VARIABLES cfg, inp
vars == <<cfg, inp>>
Init == cfg = InitCfg /\ inp = <<>>
Feed(b) == /\ cfg.out = "run"
           /\ cfg' = Step(cfg, b)
           /\ inp' = Append(inp, b)
=============================================================================
