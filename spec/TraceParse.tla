----------------------------- MODULE TraceParse -----------------------------
(* Validation of recorded executions of Valid, SkipValue, SkipValueFast      *)
(* (and json.Valid / the stdlib streaming decoder as a second implementation)*)
(* against the grammar machine.  C01, C02, C11; C10 and C16 for these calls. *)
EXTENDS FastSkip, TraceCore

VARIABLE l
\* the variables of JSONMachine are not used by the trace spec
TraceInit == l = 1 /\ cfg = InitCfg /\ inp = <<>>

\* r: final configuration of the specification for input d; o: observations
Clauses(r, d, o) ==
  LET ok == r.out = "done"
      v  == IF ok /\ AllWS(d, r.end) THEN 1 ELSE 0
      okI == IF ok THEN 1 ELSE 0
      n  == Len(d)
  IN F(o[1] = v, "C01", "valid_nil") \cup F(o[2] = v, "C01", "valid_fresh_buffer")
     \cup F(o[3] = v, "C01", "valid_used_buffer") \cup F(o[4] = v, "C01", "valid_buffer_after_failure")
     \cup F(o[18] = 1 => o[5] = v, "C01", "encoding_json_valid_differs_from_spec")
     \cup F(o[6] = okI /\ (ok => o[7] = r.end), "C02", "skipvalue_nil")
     \cup F(o[8] = okI /\ (ok => o[9] = r.end), "C02", "skipvalue_used_buffer")
     \cup F(o[18] = 1 => (o[10] = okI /\ (ok => o[11] = r.end)), "C02", "stdlib_stream_differs_from_spec")
     \cup F(ok => (o[12] = 1 /\ o[13] = r.end), "C11", "skipvaluefast_nil")
     \cup F(ok => (o[14] = 1 /\ o[15] = r.end), "C11", "skipvaluefast_used_buffer")
     \cup F(o[19] = v, "C01", "valid_buffer_grown_by_a_handler_traversal")
     \cup F(o[20] = okI /\ (ok => o[21] = r.end), "C02", "skipvalue_buffer_grown_by_a_handler_traversal")
     \cup F(ok => (o[22] = 1 /\ o[23] = r.end), "C11", "skipvaluefast_buffer_grown_by_a_handler_traversal")
     \cup F(o[24] = 0, "C10", "panic")
     \* the same input array refilled with this document after a same-length document went through the same Buffer
     \cup F(o[25] = v, "C01", "valid_same_array_refilled_same_buffer")
     \cup F(o[26] = okI /\ (ok => o[27] = r.end), "C02", "skipvalue_same_array_refilled_same_buffer")
     \cup F(ok => (o[28] = 1 /\ o[29] = r.end), "C11", "skipvaluefast_same_array_refilled_same_buffer")
     \cup F(o[30] = 0, "C10", "panic")
     \* the same bytes in other layouts of the caller's slice: capacity = length, and spare capacity holding bytes that
     \* would continue or close the document (what lies beyond len(data) is not input), and the same array refilled with
     \* this document after a same-length document went through the same Buffer in a *different* function;
     \* one tuple per distinct result
     \cup UNION { LET b == 34 + 5 * (k - 1) IN
                    F(o[b] = v, "C01", "valid_depends_on_slice_layout_or_on_what_another_function_left_in_the_buffer")
                    \cup F(o[b + 1] = okI /\ (ok => o[b + 2] = r.end), "C02", "skipvalue_depends_on_slice_layout_or_on_what_another_function_left_in_the_buffer")
                    \cup F(ok => (o[b + 3] = 1 /\ o[b + 4] = r.end), "C11", "skipvaluefast_depends_on_slice_layout_or_on_what_another_function_left_in_the_buffer")
                    \cup F((o[b + 1] = 1 => (o[b + 2] >= 0 /\ o[b + 2] <= n)) /\ (o[b + 3] = 1 => (o[b + 4] >= 0 /\ o[b + 4] <= n)),
                           "C10", "offset_out_of_range")
                  : k \in 1..((Len(o) - 33) \div 5) }
     \cup F(Len(o) >= 38, "INFRA", "no_layout_tuple_recorded")
     \cup F(o[31] = 0, "C10", "panic")
     \cup F(o[32] = 1, "NOTE", "bytes_of_the_callers_array_beyond_len_were_written")
     \cup F(o[33] = 1, "C16", "input_modified")
     \cup F(o[16] = 1, "C16", "input_modified")
     \cup F(o[17] = 0, "C10", "panic")
     \cup F((o[6] = 1 => (o[7] >= 0 /\ o[7] <= n)) /\ (o[8] = 1 => (o[9] >= 0 /\ o[9] <= n))
            /\ (o[12] = 1 => (o[13] >= 0 /\ o[13] <= n)) /\ (o[14] = 1 => (o[15] >= 0 /\ o[15] <= n)),
            "C10", "offset_out_of_range")

\* Conformance of the implementation-shaped model of SkipValueFast (FastSkip.tla) with the real
\* function on *every* input, malformed ones included.  A difference is reported as a
\* CONFORMANCE-NOTE, never as a violation: the property (C11) constrains well-formed input only.
\* Enabled with the environment variable CONFORMANCE=1 (the thorough tier of C11).
Conformance == "CONFORMANCE" \in DOMAIN IOEnv /\ IOEnv.CONFORMANCE = "1"
FastNotes(fs, o) ==
  IF ~Conformance THEN {}
  ELSE LET g == FastAtEOF(fs)
           okI == IF g.out = "done" THEN 1 ELSE 0
       IN F(o[12] = okI /\ (okI = 1 => o[13] = g.end) /\ o[14] = okI /\ (okI = 1 => o[15] = g.end),
            "NOTE", "SkipValueFast_differs_from_FastSkip_model")

Obs(row) == SubSeq(row, 3, Len(row))

FastFrom(f, bytes) == FoldLeft(FastStep, f, bytes)
CheckSweep(e) ==
  LET cp == RunFrom(InitCfg, e.pre)
      fp == IF Conformance THEN FastFrom(FastInit, e.pre) ELSE FastInit IN
  \A i \in 1..Len(e.rows) :
     LET row == e.rows[i]
         suf == e.sufs[row[2] + 1]
         r   == AtEOF(RunFrom(Step(cp, row[1]), suf))
         d   == e.pre \o <<row[1]>> \o suf
     IN Report(l, i, Clauses(r, d, Obs(row)) \cup FastNotes(FastFrom(FastStep(fp, row[1]), suf), Obs(row)))

CheckDoc(e) == LET d == Input(e) IN
  Report(l, 0, Clauses(Run(d), d, e.o) \cup FastNotes(FastFrom(FastInit, d), e.o))

TraceNext ==
  /\ l <= Len(Trace)
  /\ LET e == Trace[l] IN
       CASE e.op = "sweep" -> CheckSweep(e)
         [] e.op = "doc" -> CheckDoc(e)
         [] e.op = "panic" -> Report(l, 0, PanicFail)
  /\ l' = l + 1
  /\ UNCHANGED <<cfg, inp>>

TraceSpec == TraceInit /\ [][TraceNext]_<<l, cfg, inp>>

\* acceptance: every event was consumed
Finished == l = Len(Trace) + 1 => PrintT(<<"TRACE-CONSUMED", Len(Trace)>>)
=============================================================================
