SPECIFICATION Spec
CONSTANTS
  N = 5
  GMaxDepth = 1000
INVARIANT ResyncRefinesIntended
INVARIANT TablesAgree
CHECK_DEADLOCK FALSE
