SPECIFICATION Spec
CONSTANTS
  N = 5
  GMaxDepth = 1000
INVARIANT ResyncRefinesIntended
CHECK_DEADLOCK FALSE
