------------------------------ MODULE MC_Compose ------------------------------
(* R1 for C08 (and the member tables of C07): relative offsets add up.  For    *)
(* every explored document whose first value is a container, the member table  *)
(* is consistent with the grammar's tree, and parsing the slice a handler      *)
(* receives (the document from the member's first byte on) as a document of    *)
(* its own yields exactly that member's subtree and its end offset - so every  *)
(* offset a reader returns is a correct place to resume the enclosing parse.   *)
EXTENDS Handlers, TLC
CONSTANTS N
VARIABLE inp
CAlpha == {32, 34, 92, 45, 46, 48, 49, 44, 58, 91, 93, 123, 125, 101, 116, 110}
Init == inp = <<>>
Next == Len(inp) < N /\ \E b \in CAlpha : inp' = Append(inp, b)
Spec == Init /\ [][Next]_inp

Kind == LET b == At(inp, SkipWS(inp, 1)) IN IF b = 91 THEN "A" ELSE IF b = 123 THEN "O" ELSE ""
Compositional ==
  LET v == Value(inp) IN
  (Kind # "") =>
     LET mt == MemberTable(inp, Kind) IN
     /\ mt.ok = v.ok
     /\ v.ok =>
          /\ mt.end = v.end
          /\ Len(mt.ms) = Len(v.tree[2])
          /\ \A i \in 1..Len(mt.ms) :
               LET m == mt.ms[i]
                   sub == Value(SubSeq(inp, m[1] + 1, Len(inp)))
                   node == IF Kind = "A" THEN v.tree[2][i] ELSE v.tree[2][i][2]
               IN /\ sub.ok /\ sub.end = m[4] - m[1] /\ sub.tree = node
                  /\ Kind = "O" => DecodeContent(SubSeq(inp, m[2] + 1, m[3])) = v.tree[2][i][1]
\* null is accepted by both traversals and has no members
NullTable == LET i == SkipWS(inp, 1) IN
   IsLit(inp, i, <<110, 117, 108, 108>>) => (MemberTable(inp, "A").ok /\ MemberTable(inp, "O").ms = <<>>)
=============================================================================
