----------------------------- MODULE TraceFloats -----------------------------
(* Validation of recorded number-to-float64 conversions (C04).               *)
(* row: <<fn, ok, p, w3, w2, w1, w0>>  fn 1 ReadFloat64, 2 DecodeFloat64 (bits*)
(* of the target), 3 ReadValue;  std: <<ok (0 syntax, 1 ok, 2 range), consumed,*)
(* w3..w0>> is strconv.ParseFloat on the literal, a second implementation      *)
(* that must satisfy the same relation.                                        *)
EXTENDS FloatScan, TraceCore
G == INSTANCE JSONGrammar WITH GMaxDepth <- 3
VARIABLE l

Clauses(e) ==
  LET s == e["in"]
      i0 == G!SkipWS(s, 1)
      en == G!NumEnd(s, i0)          \* 1-based exclusive end of the number token; 0 = not a well-formed literal
  IN IF en = 0 THEN F(e.unch = 1, "C16", "input_modified") \cup F(e.panics = 0, "C10", "panic")
     ELSE
     LET lit == Lit(SubSeq(s, i0, en - 1))
         ov == Overflow(lit)
         words(r) == SubSeq(r, 4, 7)
         \* the relation is evaluated once per distinct bit pattern
         goodBits == {w \in {words(e.r[i]) : i \in 1..Len(e.r)} \cup {SubSeq(e.std, 3, 6)} : ~ov /\ Rounded(lit, w)}
     IN UNION { LET r == e.r[i] IN
                \* rows 4..7: the literal as a leaf of a document (array element, object member) through ReadValue and
                \* through a reused reader's ReadArray / ReadObject; their offset is that of the whole document
                F(IF ov THEN r[2] = 0 ELSE (r[2] = 1 /\ (r[1] <= 3 => r[3] = en - 1) /\ words(r) \in goodBits),
                  "C04", CASE r[1] = 1 -> "ReadFloat64" [] r[1] = 2 -> "DecodeFloat64" [] r[1] = 3 -> "ReadValue"
                           [] r[1] = 4 -> "ReadValue_array_element" [] r[1] = 5 -> "ReadValue_object_member"
                           [] r[1] = 6 -> "reused_reader_ReadArray_element" [] OTHER -> "reused_reader_ReadObject_member")
                : i \in 1..Len(e.r) }
        \* strconv is wrong beyond 800 integer digits (DESIGN section 7): excluded from the cross-check
        \cup F(lit.nint > 800 \/ (IF ov THEN e.std[1] = 2 ELSE (e.std[1] = 1 /\ SubSeq(e.std, 3, 6) \in goodBits)),
               "C04", "strconv_differs_from_spec")
        \cup F(e.std[2] = en - i0, "INFRA", "harness_literal_prefix_differs_from_spec")
        \cup F(e.unch = 1, "C16", "input_modified") \cup F(e.panics = 0, "C10", "panic")
        \* conformance of the implementation-shaped scanner model (hooks H4 and H1): notes, never verdicts
        \cup (IF "scan" \notin DOMAIN e \/ Len(e.scan) < 6 THEN {} ELSE
              LET k == Len(e.scan)
                  f == Scan(SubSeq(s, i0, en - 1))
              IN F(/\ e.scan[k] = 1 /\ e.scan[k - 1] = en - i0
                   /\ StripLZ(SubSeq(e.scan, 1, k - 5)) = f.mant /\ e.scan[k - 4] = f.exp
                   /\ (e.scan[k - 3] = 1) = f.neg /\ (e.scan[k - 2] = 1) = f.trunc,
                   "NOTE", "readFloat_differs_from_FloatScan_model")
                 \cup F(e.tier \in Tiers(f), "NOTE", "conversion_path_differs_from_FloatScan_model"))

TraceInit == l = 1
TraceNext == /\ l <= Len(Trace)
             /\ Report(l, 0, IF IsPanic(Trace[l]) THEN PanicFail ELSE Clauses(Trace[l]))
             /\ l' = l + 1
TraceSpec == TraceInit /\ [][TraceNext]_l
Finished == l = Len(Trace) + 1 => PrintT(<<"TRACE-CONSUMED", Len(Trace)>>)
=============================================================================
