------------------------------ MODULE MC_Tokens ------------------------------
(* R1 for C13: the token table agrees with the grammar machine on which byte *)
(* can start a value, for all 256 byte values after every whitespace prefix  *)
(* of length <= 2; literal acceptors agree with the machine.                 *)
EXTENDS Api, TLC
M == INSTANCE JSONMachine WITH MaxDepth <- 3, cfg <- 0, inp <- 0
VARIABLE s
WSs == {32, 9, 10, 13}
Init == s \in {<<>>} \cup {<<a>> : a \in WSs} \cup {<<a, b>> : a \in WSs, b \in WSs}
Next == /\ Len(s) <= 2 /\ \A i \in 1..Len(s) : IsWS(s[i])
        /\ \E b \in Byte : s' = Append(s, b)
Spec == Init /\ [][Next]_s
TableAgreesWithMachine ==
  LET t == NextTok(s) IN
  /\ t.eof = (\A i \in 1..Len(s) : IsWS(s[i]))
  /\ ~t.eof => /\ t.p = Len(s)
               /\ (t.type \in {1, 2, 3, 4, 5, 6, 8}) = (M!RunFrom(M!InitCfg, s).out # "err")
               /\ (t.type \in {7, 9, 10, 11}) => t.b \in {125, 93, 44, 58}
LiteralsAgree ==
  \A w \in {<<110, 117, 108, 108>>, <<116, 114, 117, 101>>, <<102, 97, 108, 115, 101>>} :
     LET d == s \o w IN
     (\A i \in 1..Len(s) : IsWS(s[i])) =>
        /\ M!Skip(d).ok /\ M!Skip(d).end = Len(d)
        /\ (w[1] = 110) = ReadNullSpec(d).ok
        /\ (w[1] # 110) = ReadBoolSpec(d).ok
        /\ ReadNullSpec(d).ok => ReadNullSpec(d).end = Len(d)
        /\ ReadBoolSpec(d).ok => ReadBoolSpec(d).end = Len(d)
=============================================================================
