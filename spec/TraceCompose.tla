----------------------------- MODULE TraceCompose -----------------------------
(* Validation of recorded API-composition decoders (C08).  A program is the    *)
(* recorded stream of per-member choices:                                      *)
(*   0 typed reader (recursing through handlers)   1 SkipValue                 *)
(*   2 SkipValueFast   3 return 0   4 ValueReader.ReadValue   5 Decode forms    *)
EXTENDS Trees, TraceCore
VARIABLE l

\* documents of the depth family (run-length "segs" inputs) are judged by the iterative pushdown machine
M == INSTANCE JSONMachine WITH MaxDepth <- GMaxDepth, cfg <- 0, inp <- 0

Clauses(e) ==
  LET s == Input(e)
      deep == "segs" \in DOMAIN e
      v == IF deep THEN LET m == M!Skip(s) IN [ok |-> m.ok, end |-> m.end, tree |-> <<"deep">>] ELSE Value(s)
      ovf == ~deep /\ v.ok /\ HasOverflow(v.tree)
      direct == v.ok /\ ~ovf                          \* direct whole-value decoding succeeds
      chs == ToSet(e.choices)
      readsAll == chs \cap {1, 2, 3} = {}             \* every member read with a typed (value-producing) reader
      validating == 2 \notin chs                      \* nothing but validating calls (no SkipValueFast)
  IN F(direct => (e.res[1] = 1 /\ e.res[2] = v.end), "C08", "final_offset_differs_from_direct_decoding")
     \cup F(direct /\ readsAll /\ e.res[1] = 1 /\ e.tree # <<"partial">> => TreeMatch(v.tree, e.tree, FALSE),
            "C08", "reconstructed_tree_differs")
     \cup F(direct /\ readsAll /\ e.res[1] = 1 => e.full = 1, "INFRA", "full_program_left_members_out")
     \cup F(~direct /\ readsAll => e.res[1] = 0, "C08", "validating_decoder_accepted_input_direct_decoding_rejects")
     \* a malformed first value is rejected by every decoder that uses validating calls only (typed readers,
     \* SkipValue, return-0, ValueReader); number overflow alone is only seen by readers that convert numbers
     \cup F(~v.ok /\ validating => e.res[1] = 0, "C08", "validating_calls_accepted_malformed_input")
     \cup F(e.res[1] = 1 => (e.res[2] >= 0 /\ e.res[2] <= Len(s)), "C10", "offset_out_of_range")
     \cup F(e.unch = 1, "C16", "input_modified") \cup F(e.panics = 0, "C10", "panic")

TraceInit == l = 1
TraceNext == /\ l <= Len(Trace)
             /\ Report(l, 0, IF IsPanic(Trace[l]) THEN PanicFail ELSE Clauses(Trace[l]))
             /\ l' = l + 1
TraceSpec == TraceInit /\ [][TraceNext]_l
Finished == l = Len(Trace) + 1 => PrintT(<<"TRACE-CONSUMED", Len(Trace)>>)
=============================================================================
