----------------------------- MODULE MC_FastSkip -----------------------------
(* R1 for C11: the strict machine and the fast skipper run in lock-step on   *)
(* the same nondeterministic input.                                          *)
EXTENDS FastSkip, TLC
CONSTANT N
VARIABLES f, early   \* early: the fast skipper finished while the strict machine was still running
fvars == <<cfg, inp, f, early>>

FInit == Init /\ f = FastInit /\ early = FALSE
FNext == /\ Len(inp) < N
         /\ \E b \in Reps :
              /\ cfg.out = "run" \/ f.out = "run"
              /\ cfg' = Step(cfg, b)
              /\ f' = FastStep(f, b)
              /\ inp' = Append(inp, b)
              /\ early' = (early \/ (f'.out = "done" /\ f.out = "run" /\ cfg'.out = "run"))
FSpec == FInit /\ [][FNext]_fvars

FView == <<cfg.s, cfg.stk, cfg.out, f.mode, f.kind, f.n, f.sk, f.out, f.top.s, f.top.out, early, cfg.end = f.end>>

\* C11 on the model: wherever the strict machine accepts, the fast skipper accepts at the same offset
StrictImpliesFast ==
  LET s == AtEOF(cfg)  g == FastAtEOF(f) IN
  s.out = "done" => g.out = "done" /\ g.end = s.end /\ ~early
\* the fast skipper never reports an offset outside the input (C10 for this function)
FastInRange == LET g == FastAtEOF(f) IN g.out = "done" => g.end >= 0 /\ g.end <= Len(inp)
\* whole-input formulation, on the explored witness
WholeInput == LET s == Skip(inp)  g == FastRun(inp) IN s.ok => g.out = "done" /\ g.end = s.end
=============================================================================
