SPECIFICATION TraceSpec
CONSTANT GMaxDepth = 10000
INVARIANT Finished
CHECK_DEADLOCK FALSE
