------------------------------ MODULE MC_Decode ------------------------------
(* R1 for C12: the finite case analysis of DecodeSpec is exhaustive: reader  *)
(* outcome x null / not null x prior target.                                 *)
EXTENDS Api, TLC
VARIABLES rdok, inputkind, prior
Inputs == [null |-> <<32, 110, 117, 108, 108, 44>>, value |-> <<49>>, junk |-> <<110, 117, 108>>, empty |-> <<>>]
Init == rdok \in BOOLEAN /\ inputkind \in DOMAIN Inputs /\ prior \in {<<7>>, <<8, 9>>}
Next == UNCHANGED <<rdok, inputkind, prior>>
Spec == Init /\ [][Next]_<<rdok, inputkind, prior>>
R == DecodeSpec(Inputs[inputkind], [ok |-> rdok, p |-> 1, val |-> <<1>>], prior)
WritesOnlyOnSuccess == (R.target # prior) => (rdok /\ R.ok)
NullLeavesTarget == (~rdok /\ inputkind = "null") => (R.ok /\ R.p = 5 /\ R.target = prior)
OtherwiseError == (~rdok /\ inputkind # "null") => (~R.ok /\ R.target = prior)
SuccessStores == rdok => (R.ok /\ R.p = 1 /\ R.target = <<1>>)
=============================================================================
