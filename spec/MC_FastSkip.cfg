SPECIFICATION FSpec
CONSTANTS
  MaxDepth = 3
  N = 64
VIEW FView
INVARIANTS StrictImpliesFast FastInRange WholeInput
CHECK_DEADLOCK FALSE
