------------------------------- MODULE MC_Ints -------------------------------
(* R1 for C05: IntRead over digit sequences agrees with an independent       *)
(* arithmetic formulation, exhaustively for all strings up to N bytes over a *)
(* small alphabet and the scaled-down types i8 / u8.                         *)
EXTENDS Ints, TLC
CONSTANT N
VARIABLE inp
Alpha == {45, 48, 49, 50, 53, 57, 32, 46, 101, 120}   \* - 0 1 2 5 9 space . e x
Init == inp = <<>>
Next == Len(inp) < N /\ \E b \in Alpha : inp' = Append(inp, b)
Spec == Init /\ [][Next]_inp

\* independent formulation: scan left to right, accumulate the value arithmetically
RECURSIVE Scan(_, _, _, _)
Scan(s, i, n, v) ==     \* n digits read so far, value v
  IF i <= Len(s) /\ IsDigit(s[i]) /\ ~(n = 1 /\ v = 0) THEN Scan(s, i + 1, n + 1, v * 10 + (s[i] - 48))
  ELSE [n |-> n, v |-> v, i |-> i]
Ref(s, lo, hi, signed) ==
  LET i0 == IWS(s, 1)
      neg == IAt(s, i0) = 45
      r == Scan(s, IF neg THEN i0 + 1 ELSE i0, 0, 0)
      val == IF neg THEN -r.v ELSE r.v
  IN IF r.n = 0 \/ (neg /\ ~signed) \/ IAt(s, r.i) \in {46, 101, 69} \/ val < lo \/ val > hi
     THEN [ok |-> FALSE, val |-> 0, end |-> 0]
     ELSE [ok |-> TRUE, val |-> val, end |-> r.i - 1]
Agrees(type, lo, hi, signed) ==
  LET a == IntRead(inp, type)  b == Ref(inp, lo, hi, signed) IN
  /\ a.ok = b.ok
  /\ a.ok => (a.end = b.end /\ (IF a.neg THEN -DVal(a.digits) ELSE DVal(a.digits)) = b.val)
IntReadExact == Agrees("i8", -128, 127, TRUE) /\ Agrees("u8", 0, 255, FALSE)
\* the real bounds are the right digit strings
ASSUME /\ Len(MaxPos("i64")) = 19 /\ Len(MaxPos("u64")) = 20 /\ Len(MaxPos("i32")) = 10 /\ Len(MaxPos("u32")) = 10
       /\ DVal(MaxPos("i32")) = 2147483647 /\ DVal(SubSeq(MaxPos("u32"), 1, 9)) = 429496729 /\ MaxPos("u32")[10] = 5
       /\ MaxNeg("i64") = [MaxPos("i64") EXCEPT ![19] = 8] /\ MaxNeg("i32") = [MaxPos("i32") EXCEPT ![10] = 8]
=============================================================================
