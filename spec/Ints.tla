-------------------------------- MODULE Ints --------------------------------
(* Integer readers (C05).  Values are sequences of decimal digit *values*    *)
(* (most significant first) because TLC integers are 32-bit.                 *)
EXTENDS Bytes, SequencesExt

\* canonical digit sequences: <<0>> or no leading zero
DigitsLeq(a, b) ==   \* a <= b for canonical digit sequences
  IF Len(a) # Len(b) THEN Len(a) < Len(b)
  ELSE LET RECURSIVE C(_)
           C(i) == IF i > Len(a) THEN TRUE
                   ELSE IF a[i] < b[i] THEN TRUE
                   ELSE IF a[i] > b[i] THEN FALSE
                   ELSE C(i + 1)
       IN C(1)

MaxPos(type) == CASE type = "i64" -> <<9,2,2,3,3,7,2,0,3,6,8,5,4,7,7,5,8,0,7>>
                  [] type = "u64" -> <<1,8,4,4,6,7,4,4,0,7,3,7,0,9,5,5,1,6,1,5>>
                  [] type = "i32" -> <<2,1,4,7,4,8,3,6,4,7>>
                  [] type = "u32" -> <<4,2,9,4,9,6,7,2,9,5>>
                  [] type = "i8"  -> <<1,2,7>>          \* scaled-down types for exhaustive R1
                  [] type = "u8"  -> <<2,5,5>>
                  [] type = "i4"  -> <<7>>              \* a narrow type read through the 8-bit reader (MC_IntsImpl)
                  [] type = "u4"  -> <<1,5>>
MaxNeg(type) == CASE type = "i64" -> <<9,2,2,3,3,7,2,0,3,6,8,5,4,7,7,5,8,0,8>>
                  [] type = "i32" -> <<2,1,4,7,4,8,3,6,4,8>>
                  [] type = "i8"  -> <<1,2,8>>
                  [] type = "i4"  -> <<8>>
Signed(type) == type \in {"i64", "i32", "i8", "i4"}

IFail == [ok |-> FALSE, neg |-> FALSE, digits |-> <<>>, end |-> 0]

RECURSIVE IWS(_, _), IDigits(_, _)
IWS(s, i) == IF i <= Len(s) /\ IsWS(s[i]) THEN IWS(s, i + 1) ELSE i
IDigits(s, i) == IF i <= Len(s) /\ IsDigit(s[i]) THEN IDigits(s, i + 1) ELSE i
IAt(s, i) == IF i <= Len(s) THEN s[i] ELSE -1

\* IntRead(s, type): the first token of s read as an integer of the given type.
\* end is the 0-based exclusive offset just after the last digit.
IntRead(s, type) ==
  LET i  == IWS(s, 1)
      neg == IAt(s, i) = 45
      j  == IF neg THEN i + 1 ELSE i
      e  == IF IAt(s, j) = 48 THEN j + 1 ELSE IF IsDig19(IAt(s, j)) THEN IDigits(s, j) ELSE 0
  IN IF e = 0 THEN IFail                                   \* no integer literal here
     ELSE IF neg /\ ~Signed(type) THEN IFail               \* wrongly signed
     ELSE IF IAt(s, e) \in {46, 101, 69} THEN IFail        \* fraction or exponent form
     ELSE LET ds == [k \in 1..(e - j) |-> s[j + k - 1] - 48]
              zero == ds = <<0>>
          IN IF neg /\ ~zero /\ ~DigitsLeq(ds, MaxNeg(type)) THEN IFail
             ELSE IF ~neg /\ ~DigitsLeq(ds, MaxPos(type)) THEN IFail
             ELSE [ok |-> TRUE, neg |-> neg /\ ~zero, digits |-> ds, end |-> e - 1]

\* numeric value of a (short) digit sequence, for the scaled-down R1 check
DVal(ds) == FoldLeft(LAMBDA acc, d : acc * 10 + d, 0, ds)
=============================================================================
