------------------------------ MODULE Handlers ------------------------------
(* Intended behaviour of HandleArrayValues / HandleObjectValues (C07, C09,   *)
(* C10): the member table of the first value, and what a traversal must      *)
(* deliver for a given sequence of handler answers.                          *)
EXTENDS JSONGrammar

\* Member table of the first value of s when it is a container of the given
\* kind ("A" | "O") or the literal null.
\*   ok    the first value is a well-formed container of that kind, or null
\*   end   0-based exclusive end offset of it
\*   ms    members in document order: <<off, kf, kt, vend>> - 0-based offset of the
\*         first byte of the value, raw key content range [kf, kt), end of the value
MFail == [ok |-> FALSE, end |-> 0, ms |-> <<>>]

RECURSIVE AElems(_, _, _), OMembs(_, _, _)
AElems(s, i, acc) ==
  LET v == Val(s, i, 1) IN
  IF ~v.ok THEN MFail ELSE
  LET j == SkipWS(s, v.end + 1)  acc2 == Append(acc, <<i - 1, 0, 0, v.end>>) IN
  IF At(s, j) = 93 THEN [ok |-> TRUE, end |-> j, ms |-> acc2]
  ELSE IF At(s, j) = 44 THEN AElems(s, SkipWS(s, j + 1), acc2)
  ELSE MFail

OMembs(s, i, acc) ==
  IF At(s, i) # 34 THEN MFail ELSE
  LET ke == StrEnd(s, i + 1) IN
  IF ke = 0 THEN MFail ELSE
  LET c == SkipWS(s, ke) IN
  IF At(s, c) # 58 THEN MFail ELSE
  LET vs == SkipWS(s, c + 1)  v == Val(s, vs, 1) IN
  IF ~v.ok THEN MFail ELSE
  LET j == SkipWS(s, v.end + 1)
      acc2 == Append(acc, <<vs - 1, i, ke - 2, v.end>>) IN
  IF At(s, j) = 125 THEN [ok |-> TRUE, end |-> j, ms |-> acc2]
  ELSE IF At(s, j) = 44 THEN OMembs(s, SkipWS(s, j + 1), acc2)
  ELSE MFail

MemberTable(s, kind) ==
  LET i == SkipWS(s, 1) IN
  IF IsLit(s, i, <<110, 117, 108, 108>>) THEN [ok |-> TRUE, end |-> i + 3, ms |-> <<>>]
  ELSE IF kind = "A" THEN
    (IF At(s, i) # 91 THEN MFail ELSE
     LET j == SkipWS(s, i + 1) IN
     IF At(s, j) = 93 THEN [ok |-> TRUE, end |-> j, ms |-> <<>>] ELSE AElems(s, j, <<>>))
  ELSE
    (IF At(s, i) # 123 THEN MFail ELSE
     LET j == SkipWS(s, i + 1) IN
     IF At(s, j) = 125 THEN [ok |-> TRUE, end |-> j, ms |-> <<>>] ELSE OMembs(s, j, <<>>))

\* The same table with the extent of every member found by the (iterative) pushdown machine instead of the
\* recursive grammar: MC_HandlersImpl shows the two agree; trace validation uses this formulation for documents
\* thousands of levels deep, where the recursive one is quadratic inside TLC.
MD1 == INSTANCE JSONMachine WITH MaxDepth <- GMaxDepth - 1, cfg <- 0, inp <- 0
ValM(s, i) == LET m == MD1!Skip(SubSeq(s, i, Len(s))) IN [ok |-> m.ok, end |-> i - 1 + m.end]

RECURSIVE AElemsM(_, _, _), OMembsM(_, _, _)
AElemsM(s, i, acc) ==
  LET v == ValM(s, i) IN
  IF ~v.ok THEN MFail ELSE
  LET j == SkipWS(s, v.end + 1)  acc2 == Append(acc, <<i - 1, 0, 0, v.end>>) IN
  IF At(s, j) = 93 THEN [ok |-> TRUE, end |-> j, ms |-> acc2]
  ELSE IF At(s, j) = 44 THEN AElemsM(s, SkipWS(s, j + 1), acc2)
  ELSE MFail

OMembsM(s, i, acc) ==
  IF At(s, i) # 34 THEN MFail ELSE
  LET ke == StrEnd(s, i + 1) IN
  IF ke = 0 THEN MFail ELSE
  LET c == SkipWS(s, ke) IN
  IF At(s, c) # 58 THEN MFail ELSE
  LET vs == SkipWS(s, c + 1)  v == ValM(s, vs) IN
  IF ~v.ok THEN MFail ELSE
  LET j == SkipWS(s, v.end + 1)
      acc2 == Append(acc, <<vs - 1, i, ke - 2, v.end>>) IN
  IF At(s, j) = 125 THEN [ok |-> TRUE, end |-> j, ms |-> acc2]
  ELSE IF At(s, j) = 44 THEN OMembsM(s, SkipWS(s, j + 1), acc2)
  ELSE MFail

MemberTableM(s, kind) ==
  LET i == SkipWS(s, 1) IN
  IF IsLit(s, i, <<110, 117, 108, 108>>) THEN [ok |-> TRUE, end |-> i + 3, ms |-> <<>>]
  ELSE IF GMaxDepth < 1 THEN MFail
  ELSE IF kind = "A" THEN
    (IF At(s, i) # 91 THEN MFail ELSE
     LET j == SkipWS(s, i + 1) IN
     IF At(s, j) = 93 THEN [ok |-> TRUE, end |-> j, ms |-> <<>>] ELSE AElemsM(s, j, <<>>))
  ELSE
    (IF At(s, i) # 123 THEN MFail ELSE
     LET j == SkipWS(s, i + 1) IN
     IF At(s, j) = 125 THEN [ok |-> TRUE, end |-> j, ms |-> <<>>] ELSE OMembsM(s, j, <<>>))
=============================================================================
