------------------------------ MODULE StackBuf ------------------------------
(* Implementation-shaped model of how the stack machines use Buffer.stackBuf  *)
(* (skipValue, skipValueFast, handleArrayValues, handleObjectValues and the   *)
(* wrappers in rjson.go), including handlers that re-enter the library with   *)
(* the enclosing call's Buffer.  R1 for C14.  Never used for a verdict about   *)
(* the real code.                                                             *)
(*                                                                           *)
(* Go slices are modelled as headers [arr, len] over arrays with identity and *)
(* a capacity; append grows in place when the capacity allows (zeroing the    *)
(* new cells) and otherwise re-allocates and copies.  Every activation of a   *)
(* stack machine has its own local header and its own `top'; it takes its     *)
(* header from the Buffer on entry and stores it back on exit (also on error  *)
(* exits).  The handler is invoked only when top = 0.                          *)
EXTENDS Integers, Sequences, SequencesExt, TLC
CONSTANTS MaxPush,     \* deepest nesting explored inside one activation
          MaxNest,     \* nested (re-entrant) activations
          MaxCalls,    \* top-level calls in a history
          MaxArrays,   \* bound on allocations
          MaxActs,     \* bound on activations in a behaviour
          Variant      \* "code" | "handler_any_top"

VARIABLES arrays,   \* sequence of [cap, cells]
          buf,      \* the Buffer's stored header [arr, len]; arr = 0: nil slice
          acts,     \* call stack of activations [arr, len, top, shadow]
          nextTag, stale, calls
vars == <<arrays, buf, acts, nextTag, stale, calls>>

Init == /\ arrays = <<>> /\ buf = [arr |-> 0, len |-> 0] /\ acts = <<>>
        /\ nextTag = 1 /\ stale = FALSE /\ calls = 0

\* a cell is tagged with the identity of the activation that wrote it and its position
NewAct == [id |-> nextTag, arr |-> buf.arr, len |-> buf.len, top |-> 0, shadow |-> <<>>]
Tag(a) == <<a.id, a.top + 1>>
ZeroCell == <<0, 0>>

\* a call from the application (not from a handler)
Enter == /\ acts = <<>> /\ calls < MaxCalls /\ nextTag <= MaxActs
         /\ acts' = <<NewAct>> /\ calls' = calls + 1 /\ nextTag' = nextTag + 1
         /\ UNCHANGED <<arrays, buf, stale>>

Cells(a) == IF a.arr = 0 THEN <<>> ELSE arrays[a.arr].cells
CapOf(a) == IF a.arr = 0 THEN 0 ELSE arrays[a.arr].cap

\* prepush + push: stack = append(stack, make([]int, 1+top-len)...) when top+1 >= len; stack[top] = cs; top++
\* ncap: the capacity the runtime gives a re-allocated array (append's growth policy is not part of the model:
\* the exhaustive configurations try need and 2*need, trace validation uses the capacity that was observed)
Need(a) == IF a.top + 1 >= a.len THEN a.top + 1 ELSE a.len     \* length after prepush
PushWith(ncap) ==
  /\ acts # <<>>
  /\ LET a == Last(acts)  need == Need(a) IN
     /\ a.top < MaxPush
     /\ \/ /\ need <= CapOf(a)                                       \* grows (or not) in place
           /\ LET cells0 == [i \in 1..CapOf(a) |-> IF i > a.len /\ i <= need THEN ZeroCell ELSE Cells(a)[i]]
                  cells1 == [cells0 EXCEPT ![a.top + 1] = Tag(a)]
              IN /\ arrays' = [arrays EXCEPT ![a.arr].cells = cells1]
                 /\ acts' = [acts EXCEPT ![Len(acts)] = [a EXCEPT !.len = need, !.top = a.top + 1, !.shadow = Append(a.shadow, Tag(a))]]
        \/ /\ need > CapOf(a) /\ Len(arrays) < MaxArrays /\ ncap >= need        \* re-allocation
           /\ LET cells0 == [i \in 1..ncap |-> IF i <= a.len THEN Cells(a)[i] ELSE ZeroCell]
                  cells1 == [cells0 EXCEPT ![a.top + 1] = Tag(a)]
              IN /\ arrays' = Append(arrays, [cap |-> ncap, cells |-> cells1])
                 /\ acts' = [acts EXCEPT ![Len(acts)] = [a EXCEPT !.arr = Len(arrays) + 1, !.len = need, !.top = a.top + 1,
                                                                    !.shadow = Append(a.shadow, Tag(a))]]
  /\ UNCHANGED <<buf, stale, calls, nextTag>>
Push == acts # <<>> /\ \E ncap \in {Need(Last(acts)), 2 * Need(Last(acts))} : PushWith(ncap)

\* fret: top--; cs = stack[top]
Pop ==
  /\ acts # <<>>
  /\ LET a == Last(acts) IN
     /\ a.top > 0
     /\ stale' = (stale \/ Cells(a)[a.top] # Last(a.shadow))
     /\ acts' = [acts EXCEPT ![Len(acts)] = [a EXCEPT !.top = a.top - 1, !.shadow = Front(a.shadow)]]
  /\ UNCHANGED <<arrays, buf, nextTag, calls>>

\* the traversal calls the handler, which re-enters the library with the same Buffer
InvokeHandler ==
  /\ acts # <<>> /\ Len(acts) <= MaxNest /\ nextTag <= MaxActs
  /\ Variant = "handler_any_top" \/ Last(acts).top = 0
  /\ acts' = Append(acts, NewAct) /\ nextTag' = nextTag + 1
  /\ UNCHANGED <<arrays, buf, stale, calls>>

\* return (success, syntax error, depth limit, handler error alike): the wrapper stores the header back
Leave ==
  /\ acts # <<>>
  /\ buf' = [arr |-> Last(acts).arr, len |-> Last(acts).len]
  /\ acts' = Front(acts)
  /\ UNCHANGED <<arrays, nextTag, stale, calls>>

Next == Enter \/ Push \/ Pop \/ InvokeHandler \/ Leave
Spec == Init /\ [][Next]_vars

\* every return state popped was pushed by the same activation and not overwritten since
NoStaleRead == ~stale
\* every index used lies inside the slice, every slice inside its array
IndexInRange == \A i \in 1..Len(acts) : acts[i].top <= acts[i].len /\ acts[i].len <= CapOf(acts[i])
BufferWellFormed == buf.len <= (IF buf.arr = 0 THEN 0 ELSE arrays[buf.arr].cap)
=============================================================================
