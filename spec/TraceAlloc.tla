------------------------------ MODULE TraceAlloc ------------------------------
(* Zero-allocation obligations (C19) and memory cost (C20).  The Go runtime   *)
(* produces the numbers (allocation counts, bytes allocated); the             *)
(* specification decides when zero is owed and does the accounting.           *)
EXTENDS TraceCore
M == INSTANCE JSONMachine WITH MaxDepth <- 1000000, cfg <- 0, inp <- 0
VARIABLES l, owed      \* owed: number of events in which zero allocations were owed (vacuity guard)

SegsLen(segs) == FoldLeft(LAMBDA acc, sg : acc + Len(sg[1]) * sg[2], 0, segs)
InputLen(e) == IF "segs" \in DOMAIN e THEN SegsLen(e.segs) ELSE Len(e["in"])

\* ---- C19 ----
\* zero allocations are owed when the call succeeded, the Buffer had been used on a
\* document at least as deeply nested, and the destination has spare capacity of at
\* least the input length
ZeroOwed(e) ==
  /\ e.ok = 1
  /\ e.usesbuf = 1 => M!MaxDepthReached(Expand(e.warm)) >= M!MaxDepthReached(Input(e))
  /\ e.usesdst = 1 => e.dstcap - e.dstlen >= InputLen(e)
\* the Buffer may have been warmed by another function than the one measured (field warmfn); the property
\* speaks of "a Buffer that has already been used on a document at least as deeply nested" whatever used it
AllocClauses(e) ==
  F(ZeroOwed(e) => e.allocs = 0, "C19",
    IF e.warmfn \in {"", "SkipValue"} THEN "allocates_" \o e.fn
    ELSE "allocates_" \o e.fn \o "_after_warmup_by_" \o e.warmfn)
  \cup F(e.panics = 0, "C10", "panic")

\* ---- C20 ----  all byte counts in units of 16 bytes
K16 == 512      \* 8192 bytes of heap per input byte
C16 == 1024     \* 16 KiB per call
Carry16 == 4    \* 64 bytes per input byte of an earlier document may be carried into later calls
PerByte(b16, len) == b16 \div ((len \div 16) + 1)      \* ~ bytes allocated per input byte
ScaleClauses(e) ==
  LET pts == e.points
      len(i) == SegsLen(pts[i].segs)
      \* b <= K16 * n + C16 without the product (TLC integers are 32 bits wide; documents reach megabytes)
      linear(b, n) == b <= C16 \/ (b - C16 + K16 - 1) \div K16 <= n
  IN UNION { F(linear(pts[i].bytes16, len(i)), "C20", "not_linear_" \o e.shape \o "_" \o e.fn \o "_n" \o ToString(pts[i].n))
             : i \in 1..Len(pts) }
     \cup UNION { F(PerByte(pts[i + 1].bytes16, len(i + 1)) <= 2 * PerByte(pts[i].bytes16, len(i)) + 64,
                    "C20", "superlinear_growth_" \o e.shape \o "_" \o e.fn)
                  : i \in 1..(Len(pts) - 1) }
HistClauses(e) ==
  LET a == e.steps[1]  b == e.steps[2] IN
  F(a[2] <= K16 * a[1] + C16 * a[3], "C20", "first_call_not_linear_" \o e.name)
  \cup F(b[2] <= K16 * b[1] + C16 * b[3] + Carry16 * a[1], "C20", "later_small_documents_expensive_" \o e.name)

Clauses(e) == CASE e.op = "alloc" -> AllocClauses(e)
                [] e.op = "memscale" -> ScaleClauses(e)
                [] e.op = "memhist" -> HistClauses(e)

TraceInit == l = 1 /\ owed = 0
TraceNext == /\ l <= Len(Trace)
             /\ Report(l, 0, IF IsPanic(Trace[l]) THEN PanicFail ELSE Clauses(Trace[l]))
             /\ owed' = owed + (IF Trace[l].op = "alloc" THEN (IF ZeroOwed(Trace[l]) THEN 1 ELSE 0) ELSE 0)
             /\ l' = l + 1
TraceSpec == TraceInit /\ [][TraceNext]_<<l, owed>>
Finished == l = Len(Trace) + 1 => PrintT(<<"TRACE-CONSUMED", Len(Trace)>>) /\ PrintT(<<"NOTE", "zero_owed", owed>>)
=============================================================================
