------------------------------ MODULE FloatScan ------------------------------
(* Implementation-shaped model of internal/fp: what readFloat extracts from a *)
(* well-formed number literal and which conversion path ParseJSONFloatPrefix  *)
(* then takes.  One ScanStep per byte, written after the loop bodies of the   *)
(* Go code (first/second digit are the same step for well-formed literals).   *)
(* Bound to the code through hooks H4 (scan result) and H1 (path taken):      *)
(* TraceFloats compares every recorded conversion with Scan/TierOK and prints *)
(* a CONFORMANCE-NOTE on a difference (the *verdict* of C04 is the rounding   *)
(* relation of Floats.tla, which does not care how the result was obtained).  *)
(* MC_FloatScan explores the model over runs of digits and proves that the    *)
(* extracted (mantissa, exponent, trunc) mean what the later paths assume.    *)
EXTENDS Floats

MaxMantDigits == 19
ExpClamp == 10000

ScanInit == [ph |-> "mant", neg |-> FALSE, mant |-> <<>>, nd |-> 0, trunc |-> FALSE,
             sawdot |-> FALSE, dp |-> 0, esign |-> 1, e |-> 0, hasexp |-> FALSE, clamped |-> FALSE]

\* one byte of a well-formed literal
ScanStep(st, b) ==
  IF st.ph = "mant" THEN
       IF b = 45 THEN [st EXCEPT !.neg = TRUE]
       ELSE IF b = 46 THEN [st EXCEPT !.sawdot = TRUE, !.dp = st.nd]
       ELSE IF b \in {69, 101} THEN [st EXCEPT !.ph = "exp", !.hasexp = TRUE]
       ELSE \* digit: counted always, kept while there is room (also a leading zero takes room)
            IF Len(st.mant) >= MaxMantDigits THEN [st EXCEPT !.nd = st.nd + 1, !.trunc = TRUE]
            ELSE [st EXCEPT !.nd = st.nd + 1, !.mant = Append(st.mant, b - 48)]
  ELSE \* exponent part
       IF b = 43 THEN st
       ELSE IF b = 45 THEN [st EXCEPT !.esign = -1]
       ELSE IF st.e < ExpClamp THEN [st EXCEPT !.e = st.e * 10 + (b - 48)]
            ELSE [st EXCEPT !.clamped = TRUE]     \* further exponent digits are ignored

ScanRun(st, bytes) == FoldLeft(ScanStep, st, bytes)

\* strip leading zeros of a digit sequence
StripLZ(ds) == LET RECURSIVE Z(_)
                   Z(i) == IF i <= Len(ds) /\ ds[i] = 0 THEN Z(i + 1) ELSE i
               IN SubSeq(ds, Z(1), Len(ds))

\* what readFloat returns: mantissa (significant digits, no leading zeros; <<>> is 0), exp, neg, trunc
Final(st) ==
  LET m == StripLZ(st.mant)
      dp == (IF st.sawdot THEN st.dp ELSE st.nd) + st.e * st.esign
  IN [mant |-> m, exp |-> IF m = <<>> THEN 0 ELSE dp - Len(st.mant), neg |-> st.neg, trunc |-> st.trunc,
      clamped |-> st.clamped]

Scan(lit) == Final(ScanRun(ScanInit, lit))

\* ---- path selection --------------------------------------------------------------
P52 == Pow2(52)
E15 == MulPow10(One, 15)
\* atof64exact: mantissa < 2^52 and a power of ten that float64 arithmetic handles exactly
ExactEligible(f) ==
  /\ ~f.trunc
  /\ Cmp(FromDigits(f.mant), P52) < 0
  /\ \/ f.exp = 0
     \* int * 10^k: zeros beyond 10^22 are moved into the integer, which must then not exceed 10^15
     \/ f.exp > 0 /\ f.exp <= 37 /\ Cmp(MulPow10(FromDigits(f.mant), IF f.exp > 22 THEN f.exp - 22 ELSE 0), E15) <= 0
     \/ f.exp < 0 /\ f.exp >= -22
ELMinExp == -348
ELMaxExp == 347
\* the set of tiers the model allows for a scan result (1 exact arithmetic, 2 Eisel-Lemire,
\* 3 Eisel-Lemire confirmed with mantissa + 1, 4 multiprecision fallback)
Tiers(f) ==
  IF ExactEligible(f) THEN {1}
  ELSE IF f.mant = <<>> THEN {4}                    \* 19 leading zeros and more digits: 0 and 1 differ
  ELSE IF f.exp < ELMinExp \/ f.exp > ELMaxExp THEN {4}
  ELSE IF f.trunc THEN {3, 4} ELSE {2, 4}

\* ---- meaning of a scan result (checked in MC_FloatScan for every literal explored) ----
\* D1 * 10^E1 compared with D2 * 10^E2
CmpDec(D1, E1, D2, E2) ==
  LET m == IF E1 < E2 THEN E1 ELSE E2 IN Cmp(MulPow10(D1, E1 - m), MulPow10(D2, E2 - m))
\* not truncated: mantissa * 10^exp is the literal's magnitude exactly;
\* truncated: mantissa * 10^exp <= magnitude < (mantissa + 1) * 10^exp  (what "confirm with the upper bound" relies on)
Faithful(lit) ==
  LET f == Scan(lit)  v == Lit(lit)
      M == FromDigits(f.mant)  V == FromDigits(v.ds)
  IN /\ f.neg = v.neg
     /\ f.clamped \/
        IF ~f.trunc THEN (IF V = <<>> THEN M = <<>> ELSE CmpDec(M, f.exp, V, v.E) = 0)
        ELSE IF M = <<>> THEN \* the kept digits were all zeros: exp is reported as 0, nothing is claimed
                  TRUE
             ELSE /\ CmpDec(M, f.exp, V, v.E) <= 0
                  /\ CmpDec(AddSmall(M, 1), f.exp, V, v.E) > 0
\* a clamped exponent is beyond every finite / non-zero float whatever the digits are, as long as the literal
\* is shorter than the clamp
ClampHarmless(lit) ==
  LET f == Scan(lit)  v == Lit(lit) IN
  (f.clamped /\ Len(lit) < ExpClamp - 400 /\ v.ds # <<>>) =>
     LET mag == Len(v.ds) + v.E IN mag > 400 \/ mag < -400
=============================================================================
