------------------------------ MODULE TraceHist ------------------------------
(* Validation of recorded call histories on one Buffer (C14) and on one       *)
(* ValueReader (C15).  The intended specification of both objects is that     *)
(* they carry no observable state: the outcome of a call is a function of the *)
(* call's own arguments.  Each step was executed on the shared object and on  *)
(* no buffer / a brand-new reader; both outcomes must coincide, and both must *)
(* be the outcome the (history-free) specification gives.                     *)
EXTENDS Trees, TraceCore
VARIABLE l
M == INSTANCE JSONMachine WITH MaxDepth <- GMaxDepth, cfg <- 0, inp <- 0

\* ---- C14 ----
BufStep(st, i) ==
  LET d == Input(st)
      tag == "step" \o ToString(i) \o "_fn" \o ToString(st.fn) \o "_mode" \o ToString(st.mode)
  IN F(st.shared = st["nil"], "C14", "outcome_differs_from_no_buffer_" \o tag)
     \* the Buffer is a scratch buffer in the sense of C16 as well: results must not depend on its prior contents
     \cup F(st.shared = st["nil"], "C16", "result_depends_on_prior_use_of_the_Buffer_" \o tag)
     \cup F(st.slog = st.nlog, "C14", "handler_calls_differ_from_no_buffer_" \o tag)
     \cup F(st.shared[4] = 0 /\ st["nil"][4] = 0, "C10", "panic")
     \cup (IF st.fn = 1 THEN F(st["nil"][1] = (IF M!IsValid(d) THEN 1 ELSE 0) /\ st.shared[1] = st["nil"][1], "C14", "valid_differs_from_spec_" \o tag)
           ELSE IF st.fn = 2 THEN LET r == M!Skip(d) IN
                F(st.shared[1] = (IF r.ok THEN 1 ELSE 0) /\ (r.ok => st.shared[2] = r.end), "C14", "skipvalue_differs_from_spec_" \o tag)
           ELSE {})

\* ---- C15 ----
RdrStep(steps, i) ==
  LET st == steps[i]
      deep == "segs" \in DOMAIN st
      tag == "step" \o ToString(i) \o "_fn" \o ToString(st.fn)
      specPart ==
        IF deep THEN {}
        ELSE LET s == st["in"]
                 v == Value(s)
                 fb == At(s, SkipWS(s, 1))
                 ok == v.ok /\ ~HasOverflow(v.tree) /\ (st.fn = 2 => fb = 123) /\ (st.fn = 3 => fb = 91)
             IN F(st.res[1] = (IF ok THEN 1 ELSE 0) /\ (ok => st.res[2] = v.end), "C15", "reused_reader_result_differs_from_spec_" \o tag)
                \cup F(ok /\ st.res[1] = 1 /\ st.tree # <<"big">> => TreeMatch(v.tree, st.tree, FALSE), "C15", "reused_reader_tree_differs_from_spec_" \o tag)
  IN F(st.res[1] = st.fresh[1] /\ (st.res[1] = 1 => st.res[2] = st.fresh[2]), "C15", "result_differs_from_fresh_reader_" \o tag)
     \cup F(st.tree = st.freshtree, "C15", "tree_differs_from_fresh_reader_" \o tag)
     \cup F(\A k \in 1..Len(st.recheck) : st.recheck[k][2] = steps[st.recheck[k][1]].tree, "C15", "earlier_result_changed_" \o tag)
     \cup F(\A k \in 1..Len(st.recheck) : st.recheck[k][2] = steps[st.recheck[k][1]].tree, "C16", "returned_tree_changed_by_later_calls_or_overwrites_" \o tag)
     \cup F(st.res[3] = 0 /\ st.fresh[3] = 0, "C10", "panic")
     \cup specPart

Clauses(e) ==
  IF e.op = "bufhist" THEN UNION {BufStep(e.steps[i], i) : i \in 1..Len(e.steps)}
  ELSE UNION {RdrStep(e.steps, i) : i \in 1..Len(e.steps)}

TraceInit == l = 1
TraceNext == /\ l <= Len(Trace)
             /\ Report(l, 0, IF IsPanic(Trace[l]) THEN PanicFail ELSE Clauses(Trace[l]))
             /\ l' = l + 1
TraceSpec == TraceInit /\ [][TraceNext]_l
Finished == l = Len(Trace) + 1 => PrintT(<<"TRACE-CONSUMED", Len(Trace)>>)
=============================================================================
