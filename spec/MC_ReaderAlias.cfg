SPECIFICATION Spec
CONSTANTS
  MaxReads = 4
  MaxLen = 2
  Variant = "make"
INVARIANT ReturnedValuesImmutable
CHECK_DEADLOCK FALSE
