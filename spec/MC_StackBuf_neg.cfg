SPECIFICATION Spec
CONSTANTS
  MaxPush = 2
  MaxNest = 2
  MaxCalls = 2
  MaxArrays = 3
  MaxActs = 4
  Variant = "handler_any_top"
INVARIANTS NoStaleRead IndexInRange BufferWellFormed
CHECK_DEADLOCK FALSE
