SPECIFICATION Spec
INVARIANTS WritesOnlyOnSuccess NullLeavesTarget OtherwiseError SuccessStores
CHECK_DEADLOCK FALSE
