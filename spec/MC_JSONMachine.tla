--------------------------- MODULE MC_JSONMachine ---------------------------
(* Exhaustive exploration of the grammar machine (R1) and emission of one    *)
(* witness per reachable state for replay into the real code (R2).           *)
EXTENDS JSONMachine, TLC, FiniteSets, Json

CONSTANTS N,          \* maximum input length explored
          Alphabet,   \* "full" | "struct"
          MaxStr,     \* bound on consecutive string-body bytes (structural runs)
          EmitStates  \* TRUE: print one STATE line per distinct state

G == INSTANCE JSONGrammar WITH GMaxDepth <- MaxDepth

Alpha == IF Alphabet = "full" THEN Reps ELSE StructReps

Next == /\ Len(inp) < N
        /\ \E b \in Alpha : Feed(b)
Spec == Init /\ [][Next]_vars

\* VIEW of the state-cover configuration: everything except position and history
View == <<cfg.s, cfg.stk, cfg.out>>

\* ---- invariants ---------------------------------------------------------------
\* The machine and the grammar define the same (ok, end) on every explored input.
MachineEqualsGrammar ==
  LET m == Skip(inp)  g == G!Value(inp) IN
  /\ m.ok = g.ok
  /\ m.ok => m.end = g.end

\* Validity through the grammar: a value, then only whitespace.
GrammarValid ==
  LET g == G!Value(inp) IN IsValid(inp) = (g.ok /\ AllWS(inp, g.end))

\* Prefix semantics: once the value is complete nothing that follows changes it.
DoneIsStable ==
  cfg.out = "done" =>
     \A b \in Alpha : /\ Step(cfg, b) = cfg
                      /\ LET g == G!Value(Append(inp, b)) IN g.ok /\ g.end = cfg.end

\* Error is absorbing and a viable prefix is viable: it has an accepted completion.
CompletionAccepts ==
  cfg.out = "run" => LET d == inp \o Completion(cfg) IN IsValid(d) /\ G!Value(d).ok

\* No operator distinguishes two bytes of one class.
ClassSound == \A b \in Byte : Step(cfg, b) = Step(cfg, ClassOf(b))

\* The depth limit is exact in every array/object mixture: a state with a full
\* stack refuses both brackets where a value may start, and accepts them below.
DepthExact ==
  cfg.out = "run" /\ cfg.s.k \in {"V0", "V", "A0"} =>
     \A b \in {91, 123} : (Step(cfg, b).out = "err") = (Len(cfg.stk) >= MaxDepth)

\* Maximal munch: in a number state a byte that can continue the number does.
MunchMaximal ==
  cfg.out = "run" /\ cfg.s.k \in {"Ni", "Nf", "Nx"} =>
     \A b \in 48..57 : Step(cfg, b).s.k = cfg.s.k /\ Step(cfg, b).pos = cfg.pos + 1

\* identity of a state of the cover graph (the VIEW, as a string)
Key(c) == ToString(<<c.s.k, c.s.c, c.s.x, c.s.n, c.s.w, c.stk, c.out>>)

\* ---- emission for replay ---------------------------------------------------------
Emit ==
  EmitStates =>
    PrintT(ToJson(<<"STATE", Key(cfg), cfg.s.k, cfg.s.c, cfg.s.x, cfg.s.n, cfg.s.w, Len(cfg.stk), cfg.out, inp,
             IF cfg.out = "run" THEN Completion(cfg) ELSE <<>>,
             CloseStack(cfg.stk),
             IF cfg.out = "run"
               THEN [i \in 1..Cardinality(Reps) |->
                       LET b == SetToSeq(Reps)[i]  c2 == Step(cfg, b)
                       IN <<b, c2.out, IF c2.out = "run" THEN Completion(c2) ELSE <<>>, Key(c2)>>]
               ELSE <<>> >>))

ASSUME PrintT(ToJson(<<"CLASSES", [b \in 1..256 |-> ClassOf(b - 1)]>>))
=============================================================================
