SPECIFICATION Spec
INVARIANTS ExactlyOne SignSymmetric Monotone ExactIntegers
CHECK_DEADLOCK FALSE
