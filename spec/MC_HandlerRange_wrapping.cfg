SPECIFICATION Spec
CONSTANTS
  W = 7
  Variant = "wrapping"
INVARIANTS InRange UnusableIsError
CHECK_DEADLOCK FALSE
