SPECIFICATION Spec
CONSTANT N = 4
INVARIANTS Idempotent IdentityOnValid OutputValid LengthLaw
CHECK_DEADLOCK FALSE
