------------------------------- MODULE MC_Utf8 -------------------------------
(* R1 for C17: Utf8Sanitize is idempotent, the identity on valid UTF-8, and   *)
(* always produces valid UTF-8 - over all sequences of up to N UTF-8 boundary *)
(* bytes (first/last byte of each lead/trail range of Unicode table 3-7).     *)
EXTENDS Strings, TLC
CONSTANT N
VARIABLE s
Boundary == {0, 127, 128, 143, 144, 159, 160, 191, 192, 193, 194, 223, 224, 225, 236, 237, 238, 239,
             240, 241, 243, 244, 245, 247, 248, 251, 252, 255}
Init == s = <<>>
Next == Len(s) < N /\ \E b \in Boundary : s' = Append(s, b)
Spec == Init /\ [][Next]_s
Idempotent == Utf8Sanitize(Utf8Sanitize(s)) = Utf8Sanitize(s)
IdentityOnValid == IsValidUtf8(s) = (Utf8Sanitize(s) = s)
OutputValid == IsValidUtf8(Utf8Sanitize(s))
\* each invalid byte becomes its own U+FFFD: the output grows by 2 per replaced byte
LengthLaw == LET o == Utf8Sanitize(s) IN (Len(o) - Len(s)) % 2 = 0 /\ Len(o) >= Len(s) /\ Len(o) <= 3 * Len(s)
ASSUME /\ Utf8Sanitize(<<237, 160, 128>>) = FFFD \o FFFD \o FFFD          \* encoded surrogate
       /\ Utf8Sanitize(<<192, 128>>) = FFFD \o FFFD                       \* overlong
       /\ Utf8Sanitize(<<244, 144, 128, 128>>) = FFFD \o FFFD \o FFFD \o FFFD   \* > 10FFFF
       /\ Utf8Sanitize(<<240, 159, 152>>) = FFFD \o FFFD \o FFFD          \* truncated
       /\ Utf8Sanitize(<<240, 159, 152, 128, 97>>) = <<240, 159, 152, 128, 97>>
=============================================================================
