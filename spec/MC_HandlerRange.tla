--------------------------- MODULE MC_HandlerRange ---------------------------
(* R1 for C10: the offset arithmetic of the traversal's resynchronisation,   *)
(* in a machine word of W bits (two's complement, wrapping like Go ints).    *)
(* The traversal is at position p of an input of length pe, the handler      *)
(* answered pp; when the answer is accepted the machine continues at index   *)
(* p + pp - 1.  InRange: an accepted answer never produces an index outside  *)
(* the input.  Two variants of the acceptance test are modelled:             *)
(*   "wrapping"  p + pp - 1 >= pe  rejects   (the code before the fix)       *)
(*   "fixed"     pp > pe - p       rejects   (the code after the fix)        *)
EXTENDS Integers, TLC
CONSTANTS W, Variant

MaxWord == 2^(W-1) - 1
MinWord == -(2^(W-1))
Word == MinWord..MaxWord
Wrap(x) == ((x - MinWord) % (2^W)) + MinWord

VARIABLES pe, p, pp, phase, idx
vars == <<pe, p, pp, phase, idx>>

Init == /\ pe \in 0..(2^(W-2))          \* input lengths are far below the word limit
        /\ p \in 0..pe /\ p < pe        \* the handler is called on a byte of the input
        /\ pp = 0 /\ phase = "invoke" /\ idx = 0

\* the environment's move: the handler may answer any machine integer
Return == /\ phase = "invoke"
          /\ pp' \in Word
          /\ phase' = "returned"
          /\ UNCHANGED <<pe, p, idx>>

Rejects == IF pp < 0 THEN TRUE
           ELSE IF pp = 0 THEN FALSE
           ELSE IF Variant = "wrapping" THEN Wrap(Wrap(p + pp) - 1) >= pe
           ELSE pp > pe - p

Resync == /\ phase = "returned"
          /\ IF Rejects THEN phase' = "failed" /\ idx' = idx
             ELSE IF pp = 0 THEN phase' = "declined" /\ idx' = idx
             ELSE phase' = "resynced" /\ idx' = Wrap(Wrap(p + pp) - 1)
          /\ UNCHANGED <<pe, p, pp>>

Next == Return \/ Resync
Spec == Init /\ [][Next]_vars

\* the index the machine reads next is inside the input
InRange == phase = "resynced" => (idx >= 0 /\ idx < pe)
\* answers that do not fit inside the input are errors (C10, last sentence)
UnusableIsError == (phase \in {"resynced", "declined"}) => (pp >= 0 /\ p + pp <= pe)
=============================================================================
