----------------------------- MODULE MC_FloatScan -----------------------------
(* R1/R2 for the scanner model of internal/fp (FloatScan.tla).  A literal is   *)
(* built run by run (sign, integer digits, zeros and digits of the fraction,  *)
(* exponent); the scanner state is advanced by the per-byte ScanStep of the   *)
(* model over each run.  R1: for every literal reached, the scan result means *)
(* what the conversion paths assume (Faithful, ClampHarmless) and the model's *)
(* path prediction is a non-empty set.  R2: with VIEW = the abstract class of *)
(* the finished scan (digit count kept, truncation, mantissa against 2^52,    *)
(* exponent against every boundary the Go code tests, magnitude against the   *)
(* overflow / underflow screens) TLC prints one witness literal per class;    *)
(* the harness runs the real code on each and TraceFloats judges the result   *)
(* with the rounding relation of Floats.tla.                                  *)
EXTENDS FloatScan, TLC, Json, FiniteSets
CONSTANTS IntLens, ZeroRuns, FracLens, EmitStates
VARIABLES lit, sc, ph
vars == <<lit, sc, ph>>

P52s == <<52, 53, 48, 51, 53, 57, 57, 54, 50, 55, 51, 55, 48, 52, 57, 54>>      \* 4503599627370496 = 2^52
\* digit runs of length k: nines; one and zeros; 2^52 (cut or zero-padded); 2^52 - 1 (cut or nine-padded); 1e15+1 shape
Pattern(p, k) ==
  CASE p = 1 -> [i \in 1..k |-> 57]
    [] p = 2 -> [i \in 1..k |-> IF i = 1 THEN 49 ELSE 48]
    [] p = 3 -> [i \in 1..k |-> IF i <= 16 THEN P52s[i] ELSE 48]
    [] p = 4 -> [i \in 1..k |-> IF i < 16 THEN P52s[i] ELSE IF i = 16 THEN 53 ELSE 57]
    [] OTHER -> [i \in 1..k |-> IF i = 1 \/ i = k THEN 49 ELSE 48]
Patterns == 1..5
Zeros(k) == [i \in 1..k |-> 48]
\* exponent magnitudes (as digit bytes) around every bound the code tests, the clamp, and word sizes
ExpMagsFew == {<<48>>, <<50, 50>>, <<51, 48, 56>>, <<51, 50, 52>>, <<51, 52, 56>>, <<57, 57, 57, 57>>, <<49, 48, 48, 48, 48>>, <<50, 49, 52, 55, 52, 56, 51, 54, 52, 56>>}
ExpMagsAll == {<<48>>, <<49>>, <<49, 53>>, <<49, 54>>, <<50, 50>>, <<50, 51>>, <<51, 55>>, <<51, 56>>, <<50, 57, 48>>, <<51, 48, 56>>, <<51, 48, 57>>, <<51, 49, 48>>, <<51, 50, 52>>, <<51, 50, 53>>, <<51, 51, 48>>, <<51, 52, 51>>, <<51, 52, 55>>, <<51, 52, 56>>, <<51, 52, 57>>, <<51, 54, 48>>, <<52, 48, 48>>, <<57, 57, 57, 57>>, <<49, 48, 48, 48, 48>>, <<57, 57, 57, 57, 57>>, <<49, 48, 48, 48, 48, 48>>, <<50, 49, 52, 55, 52, 56, 51, 54, 52, 56>>, <<49, 56, 52, 52, 54, 55, 52, 52, 48, 55, 51, 55, 48, 57, 53, 53, 49, 54, 49, 54>>}

Extend(bytes) == /\ lit' = lit \o bytes
                 /\ sc' = ScanRun(sc, bytes)

Init == /\ \E neg \in BOOLEAN : lit = (IF neg THEN <<45>> ELSE <<>>) /\ sc = ScanRun(ScanInit, lit)
        /\ ph = "int"
IntPart == /\ ph = "int"
           /\ \/ Extend(<<48>>)
              \/ \E k \in IntLens, p \in Patterns : Extend(Pattern(p, k))
           /\ ph' = "afterint"
FracPart == /\ ph = "afterint"
            /\ \E z \in ZeroRuns, k \in FracLens, p \in Patterns :
                 /\ z + k >= 1
                 /\ Extend(<<46>> \o Zeros(z) \o Pattern(p, k))
            /\ ph' = "afterfrac"
ExpStyles == { <<<<101>>, 0>>, <<<<69, 43>>, 0>>, <<<<101, 45>>, 0>>, <<<<69, 45>>, 3>>, <<<<101, 43>>, 1>> }
ExpPart == /\ ph \in {"afterint", "afterfrac"}
           \* every magnitude in the plain spelling and with a minus sign, a few in the other spellings
           /\ \E st \in ExpStyles, m \in ExpMagsAll :
                /\ (st[1] \in {<<101>>, <<101, 45>>} \/ m \in ExpMagsFew)
                /\ Extend(st[1] \o Zeros(st[2]) \o m)
           /\ ph' = "done"
Finish == /\ ph \in {"afterint", "afterfrac"}
          /\ ph' = "done"
          /\ UNCHANGED <<lit, sc>>
Next == IntPart \/ FracPart \/ ExpPart \/ Finish
Spec == Init /\ [][Next]_vars

\* ---- R1 ----------------------------------------------------------------------------
WellFormedAndFaithful == ph = "done" => Faithful(lit) /\ ClampHarmless(lit)
ScanIsFold == ph = "done" => Scan(lit) = Final(sc)             \* run-wise and byte-wise scanning agree
TiersNonEmpty == ph = "done" => Tiers(Final(sc)) # {}
\* the exact path is only predicted for values that two exactly representable floats produce in one operation
ExactMeansSmall == ph = "done" =>
   LET f == Final(sc) IN ExactEligible(f) =>
       /\ Len(f.mant) <= 16
       /\ f.exp >= -22 /\ f.exp <= 37
       /\ (f.exp > 22 => Len(f.mant) + (f.exp - 22) <= 16)

\* ---- abstract class of a finished scan (VIEW) and emission -------------------------
Bucket(x, bounds) == Cardinality({b \in bounds : b <= x})
ExpBounds == {-400, -349, -348, -347, -343, -342, -325, -324, -308, -307, -23, -22, -21, -1, 0, 1, 15, 16, 22, 23, 37, 38, 291, 292, 308, 309, 347, 348, 400, 9000}
MagBounds == {-10000, -400, -331, -330, -329, -324, -323, -322, -307, -306, 0, 1, 20, 308, 309, 310, 311, 312, 400, 10000}
Class ==
  IF ph # "done" THEN <<ph, lit>>
  ELSE LET f == Final(sc)  v == Lit(lit)  M == FromDigits(f.mant) IN
       <<"done", f.neg, Len(sc.mant), Len(f.mant), f.trunc, sc.nd > 19, sc.nd > 800,
         Cmp(M, P52), Cmp(M, Pow2(53)), Cmp(M, Pow2(63)) >= 0, Bucket(f.exp, ExpBounds),
         Cmp(M, E15), f.exp > 22 /\ f.exp <= 37 /\ Cmp(MulPow10(M, f.exp - 22), E15) <= 0,
         sc.sawdot, sc.hasexp, sc.esign, sc.clamped, sc.e >= 10000,
         IF v.ds = <<>> THEN -1 ELSE Bucket(Len(v.ds) + v.E, MagBounds), Tiers(f),
         \* which side of the two result thresholds: half the smallest subnormal (2^-1075), the smallest normal
         \* (2^-1022), and the overflow threshold
         IF v.ds = <<>> THEN 0 ELSE LET mag == Len(v.ds) + v.E  D == FromDigits(v.ds) IN
            IF mag < -330 THEN -2 ELSE IF mag > 310 THEN 4
            ELSE IF mag >= 308 THEN (IF Overflow(v) THEN 3 ELSE 2)
            ELSE IF mag >= -325 /\ mag <= -321 THEN <<CmpScaled(D, v.E, One, -1075), CmpScaled(D, v.E, <<3>>, -1075)>>
            ELSE IF mag >= -309 /\ mag <= -306 THEN <<CmpScaled(D, v.E, One, -1022)>>
            ELSE 1 >>
View == Class
Emit == (EmitStates /\ ph = "done") => PrintT(ToJson(<<"FLOATLIT", lit, SetToSeq(Tiers(Final(sc)))>>))
=============================================================================
