SPECIFICATION Spec
CONSTANTS
  N = 6
  Fast = 2
INVARIANTS WordRefinesSpec OffIsWord
CHECK_DEADLOCK FALSE
