SPECIFICATION Spec
CONSTANT N = 5
INVARIANTS ThreeFormulations DecodeTotal
CHECK_DEADLOCK FALSE
