---------------------------- MODULE TraceValues ----------------------------
(* Validation of recorded executions of the scalar readers: integer readers   *)
(* (C05), string readers and UnescapeStringContent (C06), Decode functions    *)
(* (C12), token classification and literal readers (C13), destination and     *)
(* scratch semantics (C16), StdLibCompatible string helpers (C17).            *)
EXTENDS Api, IntsImpl, TraceCore
VARIABLE l

IntType(k) == CASE k \in {1, 5, 7, 11} -> "i64"     \* ReadInt64, ReadInt, DecodeInt64, DecodeInt (64-bit platform)
                [] k \in {2, 6, 8, 12} -> "u64"
                [] k \in {3, 9} -> "i32"
                [] k \in {4, 10} -> "u32"

\* ---- C05 ----  row: <<reader, ok, p, neg, d1, d2, ...>>
IntClauses(e) ==
  LET d == e["in"]
      isNull == ReadNullSpec(d).ok
  IN UNION {
       LET row == e.rows[i]
           r == IntRead(d, IntType(row[1]))
           good == /\ row[2] = (IF r.ok THEN 1 ELSE 0)
                   /\ r.ok => (row[3] = r.end /\ row[4] = (IF r.neg THEN 1 ELSE 0) /\ SubSeq(row, 5, Len(row)) = r.digits)
           \* the implementation-shaped model (IntsImpl): same verdict and - also together with an error, which C05
           \* leaves open - the offset at which the two loops of the real reader stop
           m == ImplOff(d, IntType(row[1]))
           \* the Decode forms go through nullOrBust on an error, which returns offset 0 with the reader's error
           conf == row[2] = (IF m.ok THEN 1 ELSE 0) /\ row[3] = (IF row[1] >= 7 /\ ~m.ok THEN 0 ELSE m.p)
       IN IF row[1] >= 7 /\ isNull THEN {}           \* Decode forms on null: C12
          ELSE F(good, "C05", "int_reader_" \o ToString(row[1]))
               \cup F(conf, "NOTE", "integer_reader_differs_from_IntsImpl_model")
       : i \in 1..Len(e.rows)}
     \cup F(e.unch = 1, "C16", "input_modified")
     \cup F(e.intsize = 64, "INFRA", "platform_int_size_is_not_64")

\* ---- C06 / C16 ----  entries: [k, ok, p, pre, val, post]
StrClauses(e) ==
  LET d == e["in"]
      r == ReadStringSpec(d)
  IN UNION {
       LET v == e.v[i] IN
       F(v.ok = (IF r.ok THEN 1 ELSE 0) /\ (r.ok => (v.p = r.end /\ v.val = v.pre \o r.val)),
         "C06", "string_reader_" \o ToString(v.k))
       \cup F(r.ok /\ v.ok = 1 => v.post = v.val, "C16", "result_changed_by_later_overwrite_" \o ToString(v.k))
       \cup F(r.ok /\ v.ok = 1 /\ v.k = 5 => v.val = v.pre \o r.val, "C16", "destination_contents_not_followed_by_exactly_the_decoded_bytes")
       : i \in 1..Len(e.v)}
     \cup F(e.unch = 1, "C16", "input_modified")

UnescClauses(e) ==
  LET c == e["in"] IN
  F(WellFormedContent(c) => (e.ok = 1 /\ e.p = Len(c) /\ e.val = e.pre \o DecodeContent(c)), "C06", "unescape_content")
  \cup F(WellFormedContent(c) /\ e.ok = 1 => e.post = e.val, "C16", "unescape_result_changed_by_later_overwrite")
  \cup F(WellFormedContent(c) /\ e.ok = 1 => e.val = e.pre \o DecodeContent(c), "C16", "unescape_destination_contents_not_followed_by_exactly_the_decoded_bytes")
  \cup F(e.unch = 1, "C16", "input_modified")

\* ---- C13 ----
TokClauses(e) ==
  LET d == e["in"]
      t == NextTok(d)
      nt == e.nt  ntt == e.ntt
      rb == ReadBoolSpec(d)  rn == ReadNullSpec(d)
  IN F(IF t.eof THEN nt[3] = 1
       ELSE nt[1] = t.b /\ nt[2] = t.p /\ nt[3] = (IF t.type = 0 THEN 2 ELSE 0), "C13", "NextToken")
     \cup F(IF t.eof THEN ntt[3] = 1 ELSE ntt[1] = t.type /\ ntt[2] = t.p /\ ntt[3] = 0, "C13", "NextTokenType")
     \cup F(e.rb[1] = (IF rb.ok THEN 1 ELSE 0) /\ (rb.ok => e.rb[2] = rb.end /\ e.rb[3] = rb.val), "C13", "ReadBool")
     \cup F(e.rn[1] = (IF rn.ok THEN 1 ELSE 0) /\ (rn.ok => e.rn[2] = rn.end), "C13", "ReadNull")
     \cup F(\A i \in 1..Len(e.ex) : e.ex[i][2] = 1 => (~t.eof /\ TypeClass(t.type) = e.ex[i][1]), "C13", "reader_not_type_exclusive")
     \* beyond the listed properties (a note): the name of every value of the exported TokenType
     \cup F(\A i \in 1..Len(e.tn) : e.tn[i].s = TokenName(e.tn[i].t), "NOTE", "ext_token_type_name")
     \cup F(e.unch = 1, "C16", "input_modified")

\* ---- C12 ----
DecodeClauses(e) ==
  LET d == e["in"]
      rd == [ok |-> e.rd[1] = 1, p |-> e.rd[2], val |-> e.rdval]
  IN UNION {
       LET run == e.runs[i]
           s == DecodeSpec(d, rd, run.prior)
       IN F(run.ok = (IF s.ok THEN 1 ELSE 0) /\ (s.ok => run.p = s.p) /\ run.after = s.target,
            "C12", "decode_" \o ToString(e.fn))
       : i \in 1..Len(e.runs)}
     \cup F(e.unch = 1, "C16", "input_modified")

\* a sequence of DecodeString calls into one target with one scratch buffer: the target evolves as the
\* specification says and no later call disturbs it
RECURSIVE SeqFails(_, _, _)
SeqFails(steps, i, target) ==
  IF i > Len(steps) THEN {}
  ELSE LET st == steps[i]
           s == DecodeSpec(st["in"], [ok |-> st.rd[1] = 1, p |-> st.rd[2], val |-> st.rdval], target)
       IN F(st.ok = (IF s.ok THEN 1 ELSE 0) /\ (s.ok => st.p = s.p) /\ st.after = s.target,
            "C12", "decode_sequence_step_" \o ToString(i))
          \cup SeqFails(steps, i + 1, s.target)
DecSeqClauses(e) == SeqFails(e.steps, 1, e.prior)

\* ---- C17 ----
SanClauses(e) ==
  LET s == e["in"]  x == Utf8Sanitize(s) IN
  F(e.s = x, "C17", "StdLibCompatibleString")
  \cup F(e.sb = e.pre \o x, "C17", "StdLibCompatibleStringBytes")
  \cup F(e.sb = e.pre \o x, "C16", "StdLibCompatibleStringBytes_append")
  \cup F(e.unch = 1, "C16", "input_modified")

Clauses(e) ==
  CASE e.op = "int" -> IntClauses(e)
    [] e.op = "str" -> StrClauses(e)
    [] e.op = "unesc" -> UnescClauses(e)
    [] e.op = "tok" -> TokClauses(e)
    [] e.op = "decode" -> DecodeClauses(e)
    [] e.op = "san" -> SanClauses(e)
    [] e.op = "decseq" -> DecSeqClauses(e)

TraceInit == l = 1
TraceNext == /\ l <= Len(Trace)
             /\ Report(l, 0, IF IsPanic(Trace[l]) THEN PanicFail ELSE Clauses(Trace[l]))
             /\ l' = l + 1
TraceSpec == TraceInit /\ [][TraceNext]_l
Finished == l = Len(Trace) + 1 => PrintT(<<"TRACE-CONSUMED", Len(Trace)>>)
=============================================================================
