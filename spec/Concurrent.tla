------------------------------ MODULE Concurrent ------------------------------
(* R1 for C18: N processes call the library concurrently.  Each call is       *)
(* modelled as the two steps in which it could interact with anything shared: *)
(* it writes its intermediate state to its scratch area, then reads it back   *)
(* to produce the result.  In the library as specified every scratch area is  *)
(* owned by the caller (Buffer, ValueReader, destination slice, or the call's *)
(* own stack frame), so the result is a function of the call's own arguments  *)
(* in every interleaving.  Variant "shared" models a library that keeps one   *)
(* package-level scratch area: TLC finds the interleaving that corrupts a     *)
(* result (kept as a configuration that must fail).                           *)
EXTENDS Integers, TLC
CONSTANTS Procs, Inputs, Variant     \* Variant: "private" | "shared"
VARIABLES pc, arg, scratch, shared, result
vars == <<pc, arg, scratch, shared, result>>
F(x) == x * 2 + 1        \* any function of the argument
Init == /\ pc = [p \in Procs |-> "idle"] /\ arg \in [Procs -> Inputs]
        /\ scratch = [p \in Procs |-> 0] /\ shared = 0 /\ result = [p \in Procs |-> -1]
Write(p) == /\ pc[p] = "idle"
            /\ IF Variant = "shared" THEN shared' = F(arg[p]) /\ UNCHANGED scratch
               ELSE scratch' = [scratch EXCEPT ![p] = F(arg[p])] /\ UNCHANGED shared
            /\ pc' = [pc EXCEPT ![p] = "wrote"] /\ UNCHANGED <<arg, result>>
Read(p) == /\ pc[p] = "wrote"
           /\ result' = [result EXCEPT ![p] = IF Variant = "shared" THEN shared ELSE scratch[p]]
           /\ pc' = [pc EXCEPT ![p] = "done"] /\ UNCHANGED <<arg, scratch, shared>>
Next == \E p \in Procs : Write(p) \/ Read(p)
Spec == Init /\ [][Next]_vars
\* every finished call has exactly the result it has when run alone
SequentialResults == \A p \in Procs : pc[p] = "done" => result[p] = F(arg[p])
=============================================================================
