-------------------------------- MODULE Hints --------------------------------
(* Implementation-shaped model of the allocation policies behind C20 (R1):    *)
(*  (a) how a ValueReader pre-sizes the map of the next sibling object,       *)
(*  (b) what happens to the size hint when a read fails,                      *)
(*  (c) how far a string scratch buffer is grown when an escape is met.       *)
(* Documents are abstracted to what the cost depends on.  The invariant is    *)
(* amortised linearity:  alloc <= K * input + Phi,  Phi the potential stored  *)
(* in the hints.  Policy "old" is the code before the fixes (it must fail),   *)
(* policy "new" the code after them.  Never used for a verdict about the code.*)
EXTENDS Integers, Sequences, TLC
CONSTANTS PA, PB, PC,   \* policy of (a), (b), (c): "old" | "new"
          Sizes,     \* member counts of objects that may occur
          MaxSteps, K

VARIABLES hint,      \* size predicted for the next sibling / next call
          best,      \* largest sibling seen so far (only the old policy reads it)
          alloc, input, steps,
          depth, scratch   \* (c): nesting level being read, scratch capacities per level
vars == <<hint, best, alloc, input, steps, depth, scratch>>

Max(a, b) == IF a > b THEN a ELSE b

Init == hint = 0 /\ best = 0 /\ alloc = 0 /\ input = 0 /\ steps = 0 /\ depth = 0 /\ scratch = 0

\* reading one object with s members: the map is pre-sized from the hint, input costs s + 1 bytes at least
ReadObject(s, fails) ==
  /\ steps < MaxSteps
  /\ LET pre == IF PA = "old" THEN Max(hint, best) ELSE hint IN
     /\ alloc' = alloc + Max(pre, s)
     /\ input' = input + s + 1
     /\ best' = Max(best, s)
     /\ hint' = IF fails /\ PB = "old" THEN hint ELSE s      \* (b): the old code kept the hint on error exits
  /\ steps' = steps + 1
  /\ UNCHANGED <<depth, scratch>>

\* (c) a string with an escape at nesting level d of a document with `rest' bytes still to come:
\* the old code grows that level's scratch buffer to rest, the new one to the string's length (1)
ReadEscaped(rest) ==
  /\ steps < MaxSteps
  /\ alloc' = alloc + (IF PC = "old" THEN rest ELSE 1)
  /\ input' = input + 2
  /\ steps' = steps + 1
  /\ UNCHANGED <<hint, best, depth, scratch>>

Next == \/ \E s \in Sizes : \E f \in BOOLEAN : ReadObject(s, f)
        \/ ReadEscaped(2 * (MaxSteps - steps))     \* an escape at every level of a nest MaxSteps deep
Spec == Init /\ [][Next]_vars

\* amortised linearity; the potential is what the hints may still cost
Linear == alloc <= K * input + hint
=============================================================================
