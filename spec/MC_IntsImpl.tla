----------------------------- MODULE MC_IntsImpl -----------------------------
(* R1 for the implementation-shaped integer readers: on an 8-bit word         *)
(* (Mod = 256, two unchecked digits - the scaled-down image of 2^64 and 18)   *)
(* the word-level algorithm computes exactly IntRead for every string of up   *)
(* to N bytes, the narrow readers built on it likewise, and the digit-sequence *)
(* formulation used on recorded 64-bit executions returns the same verdict     *)
(* and the same offset (also together with an error).  Fast is a constant so   *)
(* that the negative configuration (three unchecked digits: 999 does not fit   *)
(* into the word) must produce a counterexample.                               *)
EXTENDS IntsImpl, TLC
CONSTANTS N, Fast
VARIABLE inp
Alpha == {45, 48, 49, 50, 53, 57, 32, 46, 101, 120}   \* - 0 1 2 5 9 space . e x
Init == inp = <<>>
Next == Len(inp) < N /\ \E b \in Alpha : inp' = Append(inp, b)
Spec == Init /\ [][Next]_inp

Mod == 256
SameU(w, r) == w.ok = r.ok /\ (r.ok => (w.p = r.end /\ w.v = DVal(r.digits)))
SameS(w, r) == w.ok = r.ok /\ (r.ok => (w.p = r.end /\ w.v = DVal(r.digits) /\ w.neg = r.neg))

WordRefinesSpec ==
  /\ SameU(UWord(inp, Fast, Mod), IntRead(inp, "u8"))
  /\ SameS(SWord(inp, Fast, Mod), IntRead(inp, "i8"))
  /\ SameU(UNarrow(inp, Fast, Mod, 15), IntRead(inp, "u4"))
  /\ SameS(SNarrow(inp, Fast, Mod, 7, 8), IntRead(inp, "i4"))

\* the digit-sequence formulation is the word-level algorithm (verdict and offset, errors included)
OffIsWord ==
  /\ LET a == UOff(inp, MaxPos("u8"))  w == UWord(inp, Fast, Mod) IN a.ok = w.ok /\ a.p = w.p
  /\ LET a == SOff(inp, MaxPos("u8"), MaxPos("i8"), MaxNeg("i8"))  w == SWord(inp, Fast, Mod) IN a.ok = w.ok /\ a.p = w.p
  /\ LET a == UOff(inp, MaxPos("u8"))  w == UNarrow(inp, Fast, Mod, 15)
     IN (a.ok /\ DigitsLeq(Digs(inp, a.a, a.e), MaxPos("u4"))) = w.ok /\ a.p = w.p

\* every numeral 0 .. 70000, bare, signed, and followed by a byte, through a 16-bit word with four unchecked
\* digits (the values around 2^15 and 2^16 need digits the small alphabet above does not have)
RECURSIVE Numeral(_)
Numeral(v) == IF v < 10 THEN <<48 + v>> ELSE Append(Numeral(v \div 10), 48 + (v % 10))
Wide16 ==
  \A v \in 0..70000 : \A pre \in {<<>>, <<45>>, <<32>>} : \A post \in {<<>>, <<46>>, <<44>>} :
    LET s == pre \o Numeral(v) \o post
        u == UWord(s, 4, 65536)
        g == SWord(s, 4, 65536)
        neg == pre = <<45>>
        bad == post = <<46>>
    IN /\ u.ok = (~neg /\ ~bad /\ v <= 65535) /\ (u.ok => u.v = v /\ u.p = Len(s) - Len(post))
       /\ g.ok = (~bad /\ (IF neg THEN v <= 32768 ELSE v <= 32767)) /\ (g.ok => g.v = v /\ g.p = Len(s) - Len(post))
ASSUME Wide16

\* the real constants: 18 unchecked digits cannot overflow 64 bits, 19 could; the cutoff constant of the checked
\* loop is (2^64 - 1) / 10 + 1; the signed bounds are 2^63 - 1 and 2^63
Nines(k) == [i \in 1..k |-> 9]
ASSUME /\ DigitsLeq(Nines(18), MaxPos("u64")) /\ ~DigitsLeq(Nines(20), MaxPos("u64"))
       /\ DigitsLeq(Nines(2), MaxPos("u8")) /\ ~DigitsLeq(Nines(3), MaxPos("u8"))
       /\ MaxPos("u64") = <<1,8,4,4,6,7,4,4,0,7,3,7,0,9,5,5,1,6,1,5>>
       /\ MaxNeg("i64") = <<9,2,2,3,3,7,2,0,3,6,8,5,4,7,7,5,8,0,8>>
=============================================================================
