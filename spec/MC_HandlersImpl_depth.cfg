SPECIFICATION Spec
CONSTANTS
  N = 6
  GMaxDepth = 2
INVARIANT TablesAgree
CHECK_DEADLOCK FALSE
