SPECIFICATION Spec
CONSTANTS
  W = 7
  Variant = "fixed"
INVARIANTS InRange UnusableIsError
CHECK_DEADLOCK FALSE
