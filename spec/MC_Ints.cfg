SPECIFICATION Spec
CONSTANT N = 6
INVARIANT IntReadExact
CHECK_DEADLOCK FALSE
