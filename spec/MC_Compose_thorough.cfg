SPECIFICATION Spec
CONSTANTS
  N = 6
  GMaxDepth = 3
INVARIANTS Compositional NullTable
CHECK_DEADLOCK FALSE
