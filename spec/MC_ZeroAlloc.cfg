SPECIFICATION ZSpec
CONSTANTS
  MaxPush = 3
  MaxNest = 0
  MaxCalls = 2
  MaxArrays = 4
  MaxActs = 2
  Variant = "code"
INVARIANTS WarmMeansNoAlloc NoStaleRead
CHECK_DEADLOCK FALSE
