SPECIFICATION Spec
CONSTANTS
  MaxReads = 4
  MaxLen = 2
  Variant = "reuse"
INVARIANT ReturnedValuesImmutable
CHECK_DEADLOCK FALSE
