SPECIFICATION TraceSpec
CONSTANTS
  MaxPush = 1000000
  MaxNest = 100000
  MaxCalls = 100000000
  MaxArrays = 100000000
  MaxActs = 100000000
  Variant = "code"
INVARIANTS Finished RealNoStaleRead RealIndexInRange
CHECK_DEADLOCK FALSE
