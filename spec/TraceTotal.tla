----------------------------- MODULE TraceTotal -----------------------------
(* C10 for the whole exported surface on hostile inputs: every call returned  *)
(* normally, and an offset reported with a nil error lies inside the input.   *)
(* row: <<function index, reports an offset, err = nil, offset, panicked>>    *)
EXTENDS TraceCore
VARIABLE l

InputLen(e) == IF "segs" \in DOMAIN e
               THEN FoldLeft(LAMBDA acc, sg : acc + Len(sg[1]) * sg[2], 0, e.segs)
               ELSE Len(e["in"])

Clauses(e) ==
  LET n == InputLen(e) IN
  UNION {F(e.r[i][5] = 0, "C10", "panic")
         \cup F((e.r[i][2] = 1 /\ e.r[i][3] = 1) => (e.r[i][4] >= 0 /\ e.r[i][4] <= n), "C10", "offset_out_of_range")
         : i \in 1..Len(e.r)}
  \cup F(e.unch = 1, "C16", "input_modified")

TraceInit == l = 1
TraceNext == /\ l <= Len(Trace)
             /\ Report(l, 0, IF IsPanic(Trace[l]) THEN PanicFail ELSE Clauses(Trace[l]))
             /\ l' = l + 1
TraceSpec == TraceInit /\ [][TraceNext]_l
Finished == l = Len(Trace) + 1 => PrintT(<<"TRACE-CONSUMED", Len(Trace)>>)
=============================================================================
