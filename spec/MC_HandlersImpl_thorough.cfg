SPECIFICATION Spec
CONSTANTS
  N = 6
  GMaxDepth = 1000
INVARIANT ResyncRefinesIntended
CHECK_DEADLOCK FALSE
