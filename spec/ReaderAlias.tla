----------------------------- MODULE ReaderAlias -----------------------------
(* Implementation-shaped model for C15 (R1): values returned by a reused      *)
(* ValueReader are slices over backing arrays.  ReadArray allocates a fresh   *)
(* backing array for every result (Variant "make", the code); a reader that   *)
(* recycled its previous slice (Variant "reuse": arrVal[:0]) would hand out    *)
(* the same array twice, and the next read would overwrite a value the caller  *)
(* still holds - TLC finds that history (configuration kept as one that must   *)
(* fail).  Never used for a verdict about the real code.                       *)
EXTENDS Integers, Sequences, TLC
CONSTANTS MaxReads, MaxLen, Variant     \* "make" | "reuse"
VARIABLES arrays,     \* backing arrays: sequences of cells
          cur,        \* the reader's current slice header [arr, len]; arr = 0: none yet
          returned,   \* values handed to the caller: [arr, len, snap, touched]
          reads, stamp
vars == <<arrays, cur, returned, reads, stamp>>
Init == arrays = <<>> /\ cur = [arr |-> 0, len |-> 0] /\ returned = <<>> /\ reads = 0 /\ stamp = 1

\* one ReadArray/ReadObject call producing n elements
Read(n) ==
  /\ reads < MaxReads
  /\ LET fresh == Variant = "make" \/ cur.arr = 0 \/ Len(arrays[cur.arr]) < n     \* no room: append re-allocates
         vals == [i \in 1..n |-> stamp * 10 + i]
     IN IF fresh
        THEN /\ arrays' = Append(arrays, vals)
             /\ cur' = [arr |-> Len(arrays) + 1, len |-> n]
             /\ returned' = Append(returned, [arr |-> Len(arrays) + 1, len |-> n, snap |-> vals, touched |-> FALSE])
        ELSE /\ arrays' = [arrays EXCEPT ![cur.arr] = [i \in 1..Len(arrays[cur.arr]) |-> IF i <= n THEN vals[i] ELSE arrays[cur.arr][i]]]
             /\ cur' = [cur EXCEPT !.len = n]
             /\ returned' = Append(returned, [arr |-> cur.arr, len |-> n, snap |-> vals, touched |-> FALSE])
  /\ reads' = reads + 1 /\ stamp' = stamp + 1

\* the caller modifies a result it was given (it owns it)
CallerMutates(i) ==
  /\ i \in 1..Len(returned) /\ ~returned[i].touched /\ returned[i].len > 0
  /\ arrays' = [arrays EXCEPT ![returned[i].arr] = [k \in 1..Len(arrays[returned[i].arr]) |-> IF k <= returned[i].len THEN 0 ELSE arrays[returned[i].arr][k]]]
  /\ returned' = [returned EXCEPT ![i].touched = TRUE]
  /\ UNCHANGED <<cur, reads, stamp>>

Next == (\E n \in 0..MaxLen : Read(n)) \/ (\E i \in 1..MaxReads : CallerMutates(i))
Spec == Init /\ [][Next]_vars

\* a value the caller has not modified itself still reads as it did when it was returned,
\* whatever the reader did afterwards and whatever the caller did to *other* results
ReturnedValuesImmutable ==
  \A i \in 1..Len(returned) :
     ~returned[i].touched => \A k \in 1..returned[i].len : arrays[returned[i].arr][k] = returned[i].snap[k]
=============================================================================
